// Package tr writes NDJSON traces: one JSON object per line, ordered by the
// single recorder (one mutex, one sequence) as described in DESIGN.md 3.4.
package tr

import (
	"bufio"
	"encoding/json"
	"os"
	"sync"
)

type Rec map[string]interface{}

type Writer struct {
	mu sync.Mutex
	f  *os.File
	w  *bufio.Writer
	N  int
	// Sync: flush after every event (worker processes: nothing is lost when the process dies)
	Sync bool
}

func Create(path string) (*Writer, error) {
	f, err := os.Create(path)
	if err != nil {
		return nil, err
	}
	return &Writer{f: f, w: bufio.NewWriterSize(f, 1<<20)}, nil
}

func (t *Writer) Emit(r Rec) {
	b, err := json.Marshal(r)
	if err != nil {
		panic(err)
	}
	t.mu.Lock()
	t.w.Write(b)
	t.w.WriteByte('\n')
	t.N++
	if t.Sync {
		t.w.Flush()
	}
	t.mu.Unlock()
}

// Close writes the end-of-input event and flushes.
func (t *Writer) Close() error {
	t.Emit(Rec{"ev": "end"})
	t.mu.Lock()
	defer t.mu.Unlock()
	if err := t.w.Flush(); err != nil {
		return err
	}
	return t.f.Close()
}

// ReadLines reads a JSON-lines file into raw messages.
func ReadLines(path string) ([]json.RawMessage, error) {
	f, err := os.Open(path)
	if err != nil {
		return nil, err
	}
	defer f.Close()
	var out []json.RawMessage
	sc := bufio.NewScanner(f)
	sc.Buffer(make([]byte, 1<<20), 1<<26)
	for sc.Scan() {
		b := sc.Bytes()
		if len(b) == 0 {
			continue
		}
		c := make([]byte, len(b))
		copy(c, b)
		out = append(out, c)
	}
	return out, sc.Err()
}

// CloseNoEnd flushes without writing the end-of-input event (worker trace fragments).
func (t *Writer) CloseNoEnd() error {
	t.mu.Lock()
	defer t.mu.Unlock()
	if err := t.w.Flush(); err != nil {
		return err
	}
	return t.f.Close()
}

// Flush makes everything emitted so far durable (called at scenario boundaries so that a
// crashing worker loses nothing but the scenario that crashed).
func (t *Writer) Flush() {
	t.mu.Lock()
	t.w.Flush()
	t.mu.Unlock()
}

// Raw appends an already serialised line.
func (t *Writer) Raw(b []byte) {
	t.mu.Lock()
	t.w.Write(b)
	t.w.WriteByte('\n')
	t.N++
	t.mu.Unlock()
}
