// Package srv is the scripted XMPP server used by the conformance harness: a loopback TCP
// listener whose connections are driven step by step by a scenario. It splits the bytes it
// receives into top-level elements (keeping the exact bytes), optionally upgrades to TLS, and
// never interprets XMPP beyond what a scenario asks for.
package srv

import (
	"crypto/sha1"
	"os"
	"bufio"
	"bytes"
	"crypto/tls"
	"encoding/xml"
	"errors"
	"fmt"
	"io"
	"net"
	"strings"
	"sync"
	"time"
)

const (
	NSStream = "http://etherx.jabber.org/streams"
	NSClient = "jabber:client"
	NSSASL   = "urn:ietf:params:xml:ns:xmpp-sasl"
	NSTLS    = "urn:ietf:params:xml:ns:xmpp-tls"
	NSBind   = "urn:ietf:params:xml:ns:xmpp-bind"
	NSSess   = "urn:ietf:params:xml:ns:xmpp-session"
	NSSM     = "urn:xmpp:sm:3"
)

// Elem is one thing the client wrote: stream open, stream close, a run of whitespace
// (keepalive), or a complete top-level element.
type Elem struct {
	Kind     string // "open" | "close" | "ws" | "elem" | "pi"
	Raw      []byte
	Space    string
	Local    string
	Attr     map[string]string
	Text     string   // concatenated character data directly inside the element
	Children []string // "space local" of direct children
	Enc      bool     // received inside TLS
	At       time.Time
}

func (e *Elem) String() string {
	if e == nil {
		return "<nil>"
	}
	return fmt.Sprintf("%s:%s %s", e.Kind, e.Local, string(e.Raw))
}

// Server is a loopback listener.
type Server struct {
	L    net.Listener
	Addr string
	mu   sync.Mutex
}

// Listen opens a loopback listener. When the machine has (briefly) run out of ephemeral ports - thousands of
// short connections per second leave sockets in TIME_WAIT - it waits and tries again.
func Listen() (*Server, error) {
	var err error
	for i := 0; i < 120; i++ {
		var l net.Listener
		l, err = net.Listen("tcp", "127.0.0.1:0")
		if err == nil {
			return &Server{L: l, Addr: l.Addr().String()}, nil
		}
		time.Sleep(250 * time.Millisecond)
	}
	return nil, err
}

// HardClose closes a TCP connection with RST, so that no socket lingers in TIME_WAIT.
func HardClose(c net.Conn) {
	if c == nil {
		return
	}
	if t, ok := c.(*net.TCPConn); ok {
		t.SetLinger(0)
	}
	c.Close()
}

func (s *Server) Close() { s.L.Close() }

// Accept waits for the next connection.
func (s *Server) Accept(timeout time.Duration) (*Conn, error) {
	if tl, ok := s.L.(*net.TCPListener); ok {
		tl.SetDeadline(time.Now().Add(timeout))
	}
	c, err := s.L.Accept()
	if err != nil {
		return nil, err
	}
	return NewConn(c), nil
}

// Conn is one accepted connection.
type Conn struct {
	Raw   net.Conn // the TCP connection
	C     net.Conn // current (TCP or TLS)
	r     *bufio.Reader
	depth int
	base  int // 1 once the stream is open
	Enc   bool
	// ClearBytes holds every byte received outside TLS (for C04)
	wmu sync.Mutex
	cork  *corkConn
}

func NewConn(c net.Conn) *Conn {
	return &Conn{Raw: c, C: c, r: bufio.NewReaderSize(c, 1<<16)}
}

func (c *Conn) Write(s string) error {
	c.wmu.Lock()
	defer c.wmu.Unlock()
	c.C.SetWriteDeadline(time.Now().Add(5 * time.Second))
	_, err := io.WriteString(c.C, s)
	return err
}

// WriteChunks writes s split at the given offsets, with a tiny pause between the parts so
// that they reach the client in separate reads.
func (c *Conn) WriteChunks(s string, cuts []int) error {
	prev := 0
	for _, k := range cuts {
		if k <= prev || k >= len(s) {
			continue
		}
		if err := c.Write(s[prev:k]); err != nil {
			return err
		}
		time.Sleep(200 * time.Microsecond)
		prev = k
	}
	return c.Write(s[prev:])
}

func (c *Conn) Close() { c.C.Close() }

// Reset closes with RST instead of FIN.
func (c *Conn) Reset() {
	if t, ok := c.Raw.(*net.TCPConn); ok {
		t.SetLinger(0)
	}
	c.C.Close()
	c.Raw.Close()
}

// CloseWrite half-closes (FIN) while still reading.
func (c *Conn) CloseWrite() {
	if t, ok := c.Raw.(*net.TCPConn); ok && !c.Enc {
		t.CloseWrite()
		return
	}
	c.C.Close()
}

// corkConn sits between the TLS layer and the socket: while corked, what TLS writes is held back, so that several
// records (the last stanzas and the close_notify alert) can leave in ONE segment and reach the peer in one read.
type corkConn struct {
	net.Conn
	mu     sync.Mutex
	corked bool
	buf    []byte
}

func (c *corkConn) Write(p []byte) (int, error) {
	c.mu.Lock()
	if c.corked {
		c.buf = append(c.buf, p...)
		c.mu.Unlock()
		return len(p), nil
	}
	c.mu.Unlock()
	return c.Conn.Write(p)
}

func (c *corkConn) Close() error {
	c.mu.Lock()
	b := c.buf
	c.buf, c.corked = nil, false
	c.mu.Unlock()
	if len(b) > 0 {
		c.Conn.SetWriteDeadline(time.Now().Add(5 * time.Second))
		if _, err := c.Conn.Write(b); err != nil && os.Getenv("VERIF_DEBUG") != "" {
			fmt.Fprintln(os.Stderr, "cork flush:", len(b), err)
		}
	}
	return c.Conn.Close()
}

// WriteAndCloseInOneSegment (TLS only) writes s and closes the TLS connection so that the data and the close_notify
// alert leave the socket in a single write.
func (c *Conn) WriteAndCloseInOneSegment(s string) error {
	if c.cork == nil {
		return errors.New("srv: connection is not corkable (no TLS)")
	}
	c.cork.mu.Lock()
	c.cork.corked = true
	c.cork.mu.Unlock()
	if s != "" {
		if _, err := c.C.Write([]byte(s)); err != nil {
			return err
		}
	}
	return c.C.Close() // close_notify goes into the cork, corkConn.Close flushes everything at once
}

// One tls.Config per (certificate, version bound) for the whole process: its session-ticket keys then stay the same from
// one connection to the next, so that a client with a session cache can resume, as it could with a real server.
var (
	tlsCfgMu sync.Mutex
	tlsCfgs  = map[string]*tls.Config{}
)

func serverTLSConfig(cert tls.Certificate, max uint16) *tls.Config {
	key := fmt.Sprintf("%x/%d", sha1.Sum(cert.Certificate[0]), max)
	tlsCfgMu.Lock()
	defer tlsCfgMu.Unlock()
	if c, ok := tlsCfgs[key]; ok {
		return c
	}
	c := &tls.Config{Certificates: []tls.Certificate{cert}, MinVersion: tls.VersionTLS12, MaxVersion: max}
	tlsCfgs[key] = c
	return c
}

// StartTLS upgrades the connection with the given certificate. Stream state restarts.
func (c *Conn) StartTLS(cert tls.Certificate, timeout time.Duration) error {
	return c.StartTLSMax(cert, 0, timeout)
}

// StartTLSDemandClientCert starts a TLS 1.2 handshake that demands a client certificate: a client without one gets
// the handshake aborted by an alert of the SERVER (a TLS policy failure decided on the other side).
func (c *Conn) StartTLSDemandClientCert(cert tls.Certificate, timeout time.Duration) error {
	tc := tls.Server(c.Raw, &tls.Config{Certificates: []tls.Certificate{cert}, MinVersion: tls.VersionTLS12, MaxVersion: tls.VersionTLS12,
		ClientAuth: tls.RequireAnyClientCert})
	c.Raw.SetDeadline(time.Now().Add(timeout))
	err := tc.Handshake()
	c.Raw.SetDeadline(time.Time{})
	return err
}

// StartTLSMax is StartTLS with an upper bound on the protocol version (0 = none).
func (c *Conn) StartTLSMax(cert tls.Certificate, max uint16, timeout time.Duration) error {
	// bytes already buffered belong to the clear text phase; none are expected
	c.cork = &corkConn{Conn: c.Raw}
	tc := tls.Server(c.cork, serverTLSConfig(cert, max))
	c.Raw.SetDeadline(time.Now().Add(timeout))
	err := tc.Handshake()
	c.Raw.SetDeadline(time.Time{})
	if err != nil {
		return err
	}
	c.C = tc
	c.r = bufio.NewReaderSize(tc, 1<<16)
	c.Enc = true
	c.depth, c.base = 0, 0
	return nil
}

// RestartStream is called when the scenario expects a new stream open on the same connection.
func (c *Conn) RestartStream() { c.depth, c.base = 0, 0 }

var ErrTimeout = errors.New("srv: read timeout")

func isTimeout(err error) bool {
	var ne net.Error
	return errors.As(err, &ne) && ne.Timeout()
}

// ReadElem returns the next thing the client wrote, or ErrTimeout / io.EOF / another error.
func (c *Conn) ReadElem(timeout time.Duration) (*Elem, error) {
	c.C.SetReadDeadline(time.Now().Add(timeout))
	defer c.C.SetReadDeadline(time.Time{})
	e, err := c.readElem()
	if err != nil && isTimeout(err) {
		return nil, ErrTimeout
	}
	return e, err
}

func isSpace(b byte) bool { return b == ' ' || b == '\n' || b == '\t' || b == '\r' }

func (c *Conn) readElem() (*Elem, error) {
	var buf bytes.Buffer
	for {
		b, err := c.r.ReadByte()
		if err != nil {
			return nil, err
		}
		if c.depth == c.base && buf.Len() == 0 && isSpace(b) {
			// whitespace between top-level elements: a keepalive. Take what is available now.
			buf.WriteByte(b)
			for c.r.Buffered() > 0 {
				p, _ := c.r.Peek(1)
				if !isSpace(p[0]) {
					break
				}
				c.r.ReadByte()
				buf.WriteByte(p[0])
			}
			return &Elem{Kind: "ws", Raw: buf.Bytes(), Enc: c.Enc, At: time.Now()}, nil
		}
		if b != '<' {
			buf.WriteByte(b)
			continue
		}
		// a tag
		tag, err := c.readTag()
		if err != nil {
			return nil, err
		}
		buf.Write(tag)
		switch {
		case bytes.HasPrefix(tag, []byte("<?")):
			// XML declaration before a stream open: folded into the open element
		case bytes.HasPrefix(tag, []byte("<!")):
			// comment / CDATA: part of the current element
		case bytes.HasPrefix(tag, []byte("</")):
			c.depth--
			if c.depth < c.base {
				// stream close
				c.base, c.depth = 0, 0
				return &Elem{Kind: "close", Raw: buf.Bytes(), Local: "stream", Space: NSStream, Enc: c.Enc, At: time.Now()}, nil
			}
			if c.depth == c.base {
				return c.finish(buf.Bytes())
			}
		case bytes.HasSuffix(tag, []byte("/>")):
			if c.depth == c.base {
				if c.base == 0 && isFramingOpen(tag) {
					c.base, c.depth = 0, 0
					return c.finishOpen(buf.Bytes())
				}
				return c.finish(buf.Bytes())
			}
		default:
			if (c.base == 0 && c.depth == 0) || (c.depth == c.base && bytes.HasPrefix(tag, []byte("<stream:stream"))) {
				// stream open
				c.base, c.depth = 1, 1
				return c.finishOpen(buf.Bytes())
			}
			c.depth++
		}
	}
}

func isFramingOpen(tag []byte) bool {
	return bytes.HasPrefix(tag, []byte("<open")) || bytes.HasPrefix(tag, []byte("<close"))
}

// readTag reads from after '<' to the matching '>' honouring quotes, comments and CDATA.
func (c *Conn) readTag() ([]byte, error) {
	out := []byte{'<'}
	p, err := c.r.Peek(1)
	if err != nil {
		return nil, err
	}
	if p[0] == '!' {
		// comment or CDATA
		for {
			b, err := c.r.ReadByte()
			if err != nil {
				return nil, err
			}
			out = append(out, b)
			if bytes.HasPrefix(out, []byte("<![CDATA[")) {
				if bytes.HasSuffix(out, []byte("]]>")) {
					return out, nil
				}
			} else if bytes.HasPrefix(out, []byte("<!--")) {
				if len(out) >= 7 && bytes.HasSuffix(out, []byte("-->")) {
					return out, nil
				}
			} else if b == '>' && len(out) > 9 {
				return out, nil
			}
		}
	}
	var q byte
	for {
		b, err := c.r.ReadByte()
		if err != nil {
			return nil, err
		}
		out = append(out, b)
		if q != 0 {
			if b == q {
				q = 0
			}
			continue
		}
		if b == '"' || b == '\'' {
			q = b
			continue
		}
		if b == '>' {
			return out, nil
		}
	}
}

const wrapOpen = "<stream:stream xmlns:stream='" + NSStream + "' xmlns='" + NSClient + "'>"

func (c *Conn) finish(raw []byte) (*Elem, error) {
	e := &Elem{Kind: "elem", Raw: append([]byte{}, raw...), Enc: c.Enc, At: time.Now(), Attr: map[string]string{}}
	parseInto(e, wrapOpen+string(raw), 1)
	return e, nil
}

func (c *Conn) finishOpen(raw []byte) (*Elem, error) {
	e := &Elem{Kind: "open", Raw: append([]byte{}, raw...), Enc: c.Enc, At: time.Now(), Attr: map[string]string{}}
	parseInto(e, string(raw), 0)
	return e, nil
}

// parseInto fills name, attributes, direct text and children of the element that starts at
// the given depth of doc.
func parseInto(e *Elem, doc string, at int) {
	d := xml.NewDecoder(strings.NewReader(doc))
	depth := 0
	for {
		t, err := d.Token()
		if err != nil {
			return
		}
		switch tt := t.(type) {
		case xml.StartElement:
			if depth == at {
				e.Space, e.Local = tt.Name.Space, tt.Name.Local
				for _, a := range tt.Attr {
					k := a.Name.Local
					if a.Name.Space != "" && a.Name.Space != "xmlns" {
						k = a.Name.Space + " " + k
					}
					if a.Name.Space == "xmlns" {
						k = "xmlns:" + a.Name.Local
					}
					e.Attr[k] = a.Value
				}
			} else if depth == at+1 {
				e.Children = append(e.Children, tt.Name.Space+" "+tt.Name.Local)
			}
			depth++
		case xml.EndElement:
			depth--
		case xml.CharData:
			if depth == at+1 {
				e.Text += string(tt)
			}
		}
	}
}

// ---------------------------------------------------------------- helpers for scripted negotiation

func StreamHeader(id string) string {
	return "<?xml version='1.0'?><stream:stream id='" + id + "' from='localhost' xmlns='" + NSClient + "' xmlns:stream='" + NSStream + "' version='1.0'>"
}

func Features(inner string) string {
	return "<stream:features>" + inner + "</stream:features>"
}

const (
	FeatMechPlain = "<mechanisms xmlns='" + NSSASL + "'><mechanism>PLAIN</mechanism></mechanisms>"
	FeatBind      = "<bind xmlns='" + NSBind + "'/>"
	FeatSM        = "<sm xmlns='" + NSSM + "'/>"
	FeatStartTLS  = "<starttls xmlns='" + NSTLS + "'/>"
	FeatStartTLSR = "<starttls xmlns='" + NSTLS + "'><required/></starttls>"
	FeatSession   = "<session xmlns='" + NSSess + "'/>"
	FeatSessionO  = "<session xmlns='" + NSSess + "'><optional/></session>"
	SASLSuccess   = "<success xmlns='" + NSSASL + "'/>"
)

// Expect reads elements until one that is not whitespace and returns it.
func (c *Conn) Expect(timeout time.Duration) (*Elem, error) {
	dl := time.Now().Add(timeout)
	for {
		e, err := c.ReadElem(time.Until(dl))
		if err != nil {
			return nil, err
		}
		if e.Kind == "ws" {
			continue
		}
		return e, nil
	}
}

// NegotiateOpts drives the plain happy path used by the established-session scenarios.
type NegotiateOpts struct {
	SM       bool   // advertise and confirm stream management
	SMID     string // id in <enabled/>
	Resume   bool   // resume='true' in <enabled/>
	StreamID string
	Jid      string
	// Resumable: accept <resume previd=SMID/> with <resumed/>
	AcceptResume bool
	ResumedH     int // the h the server reports in <resumed/>
	// TLSCert != nil: STARTTLS is offered as required and negotiated first (protocol version at most TLSMax, 0 = any)
	TLSCert *tls.Certificate
	TLSMax  uint16
	// NoPresence: the client does not announce itself (Resume() after a refused resumption): done after <enabled/> / bind
	NoPresence bool
}

type NegotiateResult struct {
	Resumed  bool
	ResumeH  string
	PrevID   string
	Enabled  bool
	Presence bool
	Seen     []*Elem
}

// Negotiate plays the server side of open, SASL PLAIN, restart, bind | resume, SM enable and
// the initial presence, without TLS.
func (c *Conn) Negotiate(o NegotiateOpts, timeout time.Duration) (*NegotiateResult, error) {
	res := &NegotiateResult{}
	exp := func(kind, local string) (*Elem, error) {
		e, err := c.Expect(timeout)
		if err != nil {
			return nil, fmt.Errorf("negotiate: waiting for %s: %w", local, err)
		}
		res.Seen = append(res.Seen, e)
		if e.Kind != kind || (local != "" && e.Local != local) {
			return e, fmt.Errorf("negotiate: expected %s %s, got %s", kind, local, e)
		}
		return e, nil
	}
	if _, err := exp("open", ""); err != nil {
		return res, err
	}
	if o.TLSCert != nil {
		if err := c.Write(StreamHeader(o.StreamID+"t") + Features(FeatStartTLSR+FeatMechPlain)); err != nil {
			return res, err
		}
		if _, err := exp("elem", "starttls"); err != nil {
			return res, err
		}
		if err := c.Write("<proceed xmlns='" + NSTLS + "'/>"); err != nil {
			return res, err
		}
		if err := c.StartTLSMax(*o.TLSCert, o.TLSMax, timeout); err != nil {
			return res, fmt.Errorf("negotiate: TLS handshake: %w", err)
		}
		if _, err := exp("open", ""); err != nil {
			return res, err
		}
	}
	if err := c.Write(StreamHeader(o.StreamID) + Features(FeatMechPlain)); err != nil {
		return res, err
	}
	if _, err := exp("elem", "auth"); err != nil {
		return res, err
	}
	c.RestartStream()
	if err := c.Write(SASLSuccess); err != nil {
		return res, err
	}
	if _, err := exp("open", ""); err != nil {
		return res, err
	}
	feats := FeatBind
	if o.SM {
		feats += FeatSM
	}
	if err := c.Write(StreamHeader(o.StreamID+"b") + Features(feats)); err != nil {
		return res, err
	}
	e, err := c.Expect(timeout)
	if err != nil {
		return res, err
	}
	res.Seen = append(res.Seen, e)
	if e.Kind == "elem" && e.Local == "resume" {
		res.PrevID, res.ResumeH = e.Attr["previd"], e.Attr["h"]
		if o.AcceptResume {
			res.Resumed = true
			return res, c.Write("<resumed xmlns='" + NSSM + "' previd='" + e.Attr["previd"] + "' h='" + fmt.Sprint(o.ResumedH) + "'/>")
		}
		if err := c.Write("<failed xmlns='" + NSSM + "'/>"); err != nil {
			return res, err
		}
		e, err = c.Expect(timeout)
		if err != nil {
			return res, err
		}
		res.Seen = append(res.Seen, e)
	}
	if e.Kind != "elem" || e.Local != "iq" {
		return res, fmt.Errorf("negotiate: expected bind iq, got %s", e)
	}
	if err := c.Write("<iq type='result' id='" + e.Attr["id"] + "'><bind xmlns='" + NSBind + "'><jid>" + o.Jid + "</jid></bind></iq>"); err != nil {
		return res, err
	}
	if o.NoPresence && !o.SM {
		return res, nil
	}
	e, err = c.Expect(timeout)
	if err != nil {
		return res, err
	}
	res.Seen = append(res.Seen, e)
	if e.Kind == "elem" && e.Local == "enable" {
		res.Enabled = true
		r := "false"
		if o.Resume {
			r = "true"
		}
		if err := c.Write("<enabled xmlns='" + NSSM + "' id='" + o.SMID + "' resume='" + r + "'/>"); err != nil {
			return res, err
		}
		if o.NoPresence {
			return res, nil
		}
		e, err = c.Expect(timeout)
		if err != nil {
			return res, err
		}
		res.Seen = append(res.Seen, e)
	}
	if e.Kind == "elem" && e.Local == "presence" {
		res.Presence = true
		return res, nil
	}
	return res, fmt.Errorf("negotiate: expected initial presence, got %s", e)
}
