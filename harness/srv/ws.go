package srv

import (
	"context"
	"crypto/tls"
	"errors"
	"fmt"
	"io"
	"log"
	"net"
	"net/http"
	"strings"
	"sync"
	"time"

	"nhooyr.io/websocket"
)

// XMPP over WebSocket (RFC 7395) side of the scripted server: every text frame carries one
// element (<open/>, <close/> or a stream-level element).

const NSFraming = "urn:ietf:params:xml:ns:xmpp-framing"

type WSServer struct {
	L     net.Listener
	Addr  string // ws://127.0.0.1:port/xmpp
	conns chan *WSConn
	hs    *http.Server
	mu    sync.Mutex
	raw   map[string]net.Conn // accepted TCP connections by remote address
	TLS   bool
	done     chan struct{}
	doneOnce sync.Once
}

type capListener struct {
	net.Listener
	s *WSServer
}

func (l capListener) Accept() (net.Conn, error) {
	c, err := l.Listener.Accept()
	if err == nil {
		if !l.s.TLS {
			c = &spyConn{Conn: c} // clear text: WebSocket control frames (pings) can be observed on the way in
		}
		l.s.mu.Lock()
		l.s.raw[c.RemoteAddr().String()] = c
		l.s.mu.Unlock()
	}
	return c, err
}

// spyConn parses the client-to-server byte stream of a ws:// connection (HTTP request, then frames) without
// changing it, and reports ping control frames, which the WebSocket library answers by itself and never shows.
type spyConn struct {
	net.Conn
	mu     sync.Mutex
	http   bool   // the HTTP request has ended
	tail   []byte // last bytes of the HTTP request seen (to find CRLF CRLF across reads)
	hdr    []byte // frame header bytes collected so far
	skip   uint64 // payload bytes still to skip
	pings  int
	onPing func()
}

func (c *spyConn) Read(p []byte) (int, error) {
	n, err := c.Conn.Read(p)
	if n > 0 {
		c.feed(p[:n])
	}
	return n, err
}

func (c *spyConn) feed(b []byte) {
	c.mu.Lock()
	var fire []func()
	for len(b) > 0 {
		if !c.http {
			c.tail = append(c.tail, b[0])
			b = b[1:]
			if len(c.tail) > 4 {
				c.tail = c.tail[len(c.tail)-4:]
			}
			if string(c.tail) == "\r\n\r\n" {
				c.http = true
			}
			continue
		}
		if c.skip > 0 {
			k := uint64(len(b))
			if k > c.skip {
				k = c.skip
			}
			c.skip -= k
			b = b[k:]
			continue
		}
		c.hdr = append(c.hdr, b[0])
		b = b[1:]
		if len(c.hdr) < 2 {
			continue
		}
		need := 2
		l7 := int(c.hdr[1] & 0x7f)
		if l7 == 126 {
			need += 2
		} else if l7 == 127 {
			need += 8
		}
		if c.hdr[1]&0x80 != 0 {
			need += 4
		}
		if len(c.hdr) < need {
			continue
		}
		var plen uint64
		switch l7 {
		case 126:
			plen = uint64(c.hdr[2])<<8 | uint64(c.hdr[3])
		case 127:
			for i := 0; i < 8; i++ {
				plen = plen<<8 | uint64(c.hdr[2+i])
			}
		default:
			plen = uint64(l7)
		}
		if c.hdr[0]&0x0f == 0x9 {
			c.pings++
			if c.onPing != nil {
				fire = append(fire, c.onPing)
			}
		}
		c.hdr = c.hdr[:0]
		c.skip = plen
	}
	c.mu.Unlock()
	for _, f := range fire {
		f()
	}
}

// OnPing registers a callback for ping frames received on this connection (ws:// only).
func (c *WSConn) OnPing(f func()) bool {
	if s, ok := c.Raw.(*spyConn); ok {
		s.mu.Lock()
		s.onPing = f
		s.mu.Unlock()
		return true
	}
	return false
}

func ListenWS() (*WSServer, error) { return listenWS(nil) }

// ListenWSS serves wss://localhost:port/xmpp; the certificate is chosen per TLS handshake by getCert.
func ListenWSS(getCert func() *tls.Certificate) (*WSServer, error) {
	return listenWS(&tls.Config{GetCertificate: func(*tls.ClientHelloInfo) (*tls.Certificate, error) {
		c := getCert()
		if c == nil {
			return nil, errors.New("srv: no certificate")
		}
		return c, nil
	}})
}

func listenWS(tc *tls.Config) (*WSServer, error) {
	var l net.Listener
	var err error
	for i := 0; i < 120; i++ {
		l, err = net.Listen("tcp", "127.0.0.1:0")
		if err == nil {
			break
		}
		time.Sleep(250 * time.Millisecond)
	}
	if err != nil {
		return nil, err
	}
	return ServeWSOn(l, tc), nil
}

// ServeWSOn serves the WebSocket endpoint on a listener the caller made (and may wrap to see raw connections first).
func ServeWSOn(l net.Listener, tc *tls.Config) *WSServer {
	s := &WSServer{L: l, Addr: "ws://" + l.Addr().String() + "/xmpp", conns: make(chan *WSConn, 8), raw: map[string]net.Conn{}, done: make(chan struct{})}
	if tc != nil {
		_, port, _ := net.SplitHostPort(l.Addr().String())
		s.Addr = "wss://localhost:" + port + "/xmpp"
		s.TLS = true
	}
	mux := http.NewServeMux()
	mux.HandleFunc("/xmpp", func(w http.ResponseWriter, r *http.Request) {
		c, err := websocket.Accept(w, r, &websocket.AcceptOptions{Subprotocols: []string{"xmpp"}})
		if err != nil {
			return
		}
		c.SetReadLimit(1 << 20)
		s.mu.Lock()
		rc := s.raw[r.RemoteAddr]
		s.mu.Unlock()
		wc := &WSConn{C: c, done: make(chan struct{}), Raw: rc, TLS: s.TLS}
		s.conns <- wc
		<-wc.done // the handler must not return while the connection is in use
	})
	s.hs = &http.Server{Handler: mux, ErrorLog: log.New(io.Discard, "", 0)}
	if tc != nil {
		go s.hs.Serve(tls.NewListener(capListener{l, s}, tc))
	} else {
		go s.hs.Serve(capListener{l, s})
	}
	return s
}

func (s *WSServer) Accept(timeout time.Duration) (*WSConn, error) {
	select {
	case c := <-s.conns:
		return c, nil
	case <-time.After(timeout):
		return nil, errors.New("srv: no websocket connection")
	}
}

func (s *WSServer) Close() {
	s.hs.Close()
	s.doneOnce.Do(func() { close(s.done) })
}

// Conns delivers the upgraded connections; Done is closed by Close.
func (s *WSServer) Conns() <-chan *WSConn   { return s.conns }
func (s *WSServer) Done() <-chan struct{} { return s.done }

type WSConn struct {
	TLS  bool
	Raw  net.Conn // the TCP connection underneath (for abrupt drops)
	C    *websocket.Conn
	done chan struct{}
	once sync.Once
	wmu  sync.Mutex
}

func (c *WSConn) Write(s string) error {
	c.wmu.Lock()
	defer c.wmu.Unlock()
	ctx, cancel := context.WithTimeout(context.Background(), 5*time.Second)
	defer cancel()
	return c.C.Write(ctx, websocket.MessageText, []byte(s))
}

// Close drops the TCP connection underneath: no closing handshake, a lost connection.
func (c *WSConn) Close() {
	c.once.Do(func() {
		if c.Raw != nil {
			c.Raw.Close()
		} else {
			c.C.Close(websocket.StatusGoingAway, "bye")
		}
		close(c.done)
	})
}

// Reset drops it with RST.
func (c *WSConn) Reset() {
	raw := c.Raw
	if s, ok := raw.(*spyConn); ok {
		raw = s.Conn
	}
	if t, ok := raw.(*net.TCPConn); ok {
		t.SetLinger(0)
	}
	c.Close()
}

func (c *WSConn) ReadElem(timeout time.Duration) (*Elem, error) {
	ctx, cancel := context.WithTimeout(context.Background(), timeout)
	defer cancel()
	_, b, err := c.C.Read(ctx)
	if err != nil {
		if ctx.Err() != nil {
			return nil, ErrTimeout
		}
		return nil, err
	}
	e := &Elem{Kind: "elem", Raw: b, At: time.Now(), Attr: map[string]string{}, Enc: c.TLS}
	s := strings.TrimSpace(string(b))
	if s == "" {
		e.Kind = "ws"
		return e, nil
	}
	parseInto(e, wrapOpen+s, 1)
	if e.Space == NSFraming && e.Local == "open" {
		e.Kind = "open"
	} else if e.Space == NSFraming && e.Local == "close" {
		e.Kind = "close"
	}
	return e, nil
}

func (c *WSConn) Expect(timeout time.Duration) (*Elem, error) {
	dl := time.Now().Add(timeout)
	for {
		e, err := c.ReadElem(time.Until(dl))
		if err != nil {
			return nil, err
		}
		if e.Kind == "ws" {
			continue
		}
		return e, nil
	}
}

func wsOpen(id string) string {
	return "<open xmlns='" + NSFraming + "' id='" + id + "' from='localhost' version='1.0'/>"
}
func wsFeatures(inner string) string {
	return "<stream:features xmlns:stream='" + NSStream + "'>" + inner + "</stream:features>"
}

// NegotiateWS is Negotiate for the WebSocket framing (no TLS on this side: ws://).
func (c *WSConn) NegotiateWS(o NegotiateOpts, timeout time.Duration) (*NegotiateResult, error) {
	res := &NegotiateResult{}
	exp := func(kind, local string) (*Elem, error) {
		e, err := c.Expect(timeout)
		if err != nil {
			return nil, fmt.Errorf("negotiate(ws): waiting for %s: %w", local, err)
		}
		res.Seen = append(res.Seen, e)
		if e.Kind != kind || (local != "" && e.Local != local) {
			return e, fmt.Errorf("negotiate(ws): expected %s %s, got %s", kind, local, e)
		}
		return e, nil
	}
	if _, err := exp("open", ""); err != nil {
		return res, err
	}
	c.Write(wsOpen(o.StreamID))
	c.Write(wsFeatures(FeatMechPlain))
	if _, err := exp("elem", "auth"); err != nil {
		return res, err
	}
	c.Write(SASLSuccess)
	if _, err := exp("open", ""); err != nil {
		return res, err
	}
	feats := FeatBind
	if o.SM {
		feats += FeatSM
	}
	c.Write(wsOpen(o.StreamID + "b"))
	c.Write(wsFeatures(feats))
	e, err := c.Expect(timeout)
	if err != nil {
		return res, err
	}
	if e.Kind != "elem" || e.Local != "iq" {
		return res, fmt.Errorf("negotiate(ws): expected bind iq, got %s", e)
	}
	c.Write("<iq xmlns='jabber:client' type='result' id='" + e.Attr["id"] + "'><bind xmlns='" + NSBind + "'><jid>" + o.Jid + "</jid></bind></iq>")
	e, err = c.Expect(timeout)
	if err != nil {
		return res, err
	}
	if e.Kind == "elem" && e.Local == "enable" {
		res.Enabled = true
		c.Write("<enabled xmlns='" + NSSM + "' id='" + o.SMID + "' resume='true'/>")
		e, err = c.Expect(timeout)
		if err != nil {
			return res, err
		}
	}
	if e.Kind == "elem" && e.Local == "presence" {
		res.Presence = true
		return res, nil
	}
	return res, fmt.Errorf("negotiate(ws): expected initial presence, got %s", e)
}

// WSFrames turns what the scripted server would write on a TCP stream (stream header, features, a reply,
// the closing tag) into the text frames of the WebSocket framing: <open/>, <close/>, one element per frame
// with the namespaces a stand-alone element needs.
func WSFrames(s string) []string {
	var out []string
	s = strings.TrimPrefix(s, "<?xml version='1.0'?>")
	if strings.HasPrefix(s, "<stream:stream ") {
		i := strings.IndexByte(s, '>')
		hdr := s[:i+1]
		s = s[i+1:]
		id := ""
		if j := strings.Index(hdr, "id='"); j >= 0 {
			id = hdr[j+4:]
			id = id[:strings.IndexByte(id, '\'')]
		}
		out = append(out, wsOpen(id))
	}
	if s == "" {
		return out
	}
	if s == "</stream:stream>" {
		return append(out, "<close xmlns='"+NSFraming+"'/>")
	}
	if strings.HasSuffix(s, "</stream:stream>") {
		return append(WSFrames(strings.TrimSuffix(s, "</stream:stream>")), "<close xmlns='"+NSFraming+"'/>")
	}
	fix := func(prefix, with string) {
		if strings.HasPrefix(s, prefix) {
			end := strings.IndexByte(s, '>')
			if end > 0 && !strings.Contains(s[:end], with[:strings.IndexByte(with, '=')+1]) {
				s = prefix + " " + with + s[len(prefix):]
			}
		}
	}
	fix("<stream:features", "xmlns:stream='"+NSStream+"'")
	fix("<stream:error", "xmlns:stream='"+NSStream+"'")
	fix("<iq", "xmlns='"+NSClient+"'")
	fix("<message", "xmlns='"+NSClient+"'")
	fix("<presence", "xmlns='"+NSClient+"'")
	return append(out, s)
}
