package srv

import (
	"crypto/ecdsa"
	"crypto/elliptic"
	"crypto/rand"
	"crypto/tls"
	"crypto/x509"
	"crypto/x509/pkix"
	"math/big"
	"net"
	"sync"
	"time"
)

// PKI is an in-process certificate authority with one leaf certificate per class used by the
// scenarios: valid (for "localhost"), wronghost (for "other.example" only), untrusted (signed by
// another CA), expired.
type PKI struct {
	Pool  *x509.CertPool
	Certs map[string]tls.Certificate
}

var pkiOnce sync.Once
var pki *PKI

func GetPKI() *PKI {
	pkiOnce.Do(func() {
		p, err := newPKI()
		if err != nil {
			panic(err)
		}
		pki = p
	})
	return pki
}

func newCA(cn string) (*x509.Certificate, *ecdsa.PrivateKey, error) {
	key, err := ecdsa.GenerateKey(elliptic.P256(), rand.Reader)
	if err != nil {
		return nil, nil, err
	}
	tmpl := &x509.Certificate{
		SerialNumber: big.NewInt(time.Now().UnixNano()), Subject: pkix.Name{CommonName: cn},
		NotBefore: time.Now().Add(-time.Hour), NotAfter: time.Now().Add(24 * time.Hour),
		KeyUsage: x509.KeyUsageCertSign | x509.KeyUsageDigitalSignature, BasicConstraintsValid: true, IsCA: true,
	}
	der, err := x509.CreateCertificate(rand.Reader, tmpl, tmpl, &key.PublicKey, key)
	if err != nil {
		return nil, nil, err
	}
	c, err := x509.ParseCertificate(der)
	return c, key, err
}

func leaf(ca *x509.Certificate, cakey *ecdsa.PrivateKey, names []string, ips []net.IP, from, to time.Time) (tls.Certificate, error) {
	key, err := ecdsa.GenerateKey(elliptic.P256(), rand.Reader)
	if err != nil {
		return tls.Certificate{}, err
	}
	tmpl := &x509.Certificate{
		SerialNumber: big.NewInt(time.Now().UnixNano() + 7), Subject: pkix.Name{CommonName: names[0]},
		NotBefore: from, NotAfter: to, DNSNames: names, IPAddresses: ips,
		KeyUsage: x509.KeyUsageDigitalSignature, ExtKeyUsage: []x509.ExtKeyUsage{x509.ExtKeyUsageServerAuth},
	}
	der, err := x509.CreateCertificate(rand.Reader, tmpl, ca, &key.PublicKey, cakey)
	if err != nil {
		return tls.Certificate{}, err
	}
	return tls.Certificate{Certificate: [][]byte{der}, PrivateKey: key}, nil
}

func newPKI() (*PKI, error) {
	ca, cakey, err := newCA("verif test CA")
	if err != nil {
		return nil, err
	}
	other, otherkey, err := newCA("some other CA")
	if err != nil {
		return nil, err
	}
	p := &PKI{Pool: x509.NewCertPool(), Certs: map[string]tls.Certificate{}}
	p.Pool.AddCert(ca)
	now := time.Now()
	mk := func(name string, c *x509.Certificate, k *ecdsa.PrivateKey, names []string, from, to time.Time) error {
		l, err := leaf(c, k, names, nil, from, to)
		if err != nil {
			return err
		}
		p.Certs[name] = l
		return nil
	}
	if err := mk("valid", ca, cakey, []string{"localhost"}, now.Add(-time.Hour), now.Add(12*time.Hour)); err != nil {
		return nil, err
	}
	if err := mk("wronghost", ca, cakey, []string{"other.example"}, now.Add(-time.Hour), now.Add(12*time.Hour)); err != nil {
		return nil, err
	}
	if err := mk("untrusted", other, otherkey, []string{"localhost"}, now.Add(-time.Hour), now.Add(12*time.Hour)); err != nil {
		return nil, err
	}
	if err := mk("expired", ca, cakey, []string{"localhost"}, now.Add(-48*time.Hour), now.Add(-24*time.Hour)); err != nil {
		return nil, err
	}
	return p, nil
}
