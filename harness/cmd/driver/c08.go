package main

import (
	"bytes"
	"context"
	"encoding/json"
	"encoding/xml"
	"fmt"
	"math/rand"
	"runtime"
	"strconv"
	"strings"
	"sync"
	"time"

	"gosrc.io/xmpp/stanza"
	"verif/harness/srv"
	"verif/harness/tr"
)

// Family c08: the send path under concurrency (SendPath.tla). Gated scenarios replay the
// TLC schedules through the send.prewrite gate (between serialisation/queue push and the
// transport write); stress scenarios run many senders without gates.

func init() { register("c08", runC08) }

type c08Step struct {
	S  int    `json:"s"`
	Op string `json:"op"`
}
type c08Scen struct {
	SM     bool      `json:"sm"`
	FailAt int       `json:"failat"`
	Sched  []c08Step `json:"sched"`
	Logger bool      `json:"logger,omitempty"`
	// Partial: the failing write first makes progress (n > 0), then fails
	Partial bool `json:"partial,omitempty"`
	// stress mode
	G    int   `json:"g,omitempty"`
	M    int   `json:"m,omitempty"`
	Seed int64 `json:"seed,omitempty"`
	Big  bool  `json:"big,omitempty"`
	WS   bool  `json:"ws,omitempty"`
	Comp bool  `json:"comp,omitempty"` // a component instead of a client
	TLS  bool  `json:"tls,omitempty"`  // the client's session runs over STARTTLS
	// Acks > 0 (stress, SM): while the senders run the server sends that many <a h='0'/>: nothing is acknowledged, and
	// every answer makes the client retransmit what it holds - concurrently with the senders
	Acks int `json:"acks,omitempty"`
}

func goid() string {
	b := make([]byte, 64)
	b = b[:runtime.Stack(b, false)]
	f := strings.Fields(string(b))
	if len(f) > 1 {
		return f[1]
	}
	return ""
}

type c08Send struct {
	tag  string
	via  string
	want []byte
	do   func() error
}

func c08Make(env *sessEnv, ctx context.Context, s, i int, rng *rand.Rand, big bool) c08Send {
	tag := fmt.Sprintf("g%d-%d", s, i)
	body := "payload of " + tag + " <&>'\" " + strings.Repeat(string(rune('a'+s%26)), 1+rng.Intn(40))
	if big && rng.Intn(4) == 0 {
		body += strings.Repeat(string(rune('A'+s%26)), 5000+rng.Intn(20000))
	}
	switch (s + i + rng.Intn(3)) % 3 {
	case 0:
		m := stanza.Message{Attrs: stanza.Attrs{Id: tag, To: "peer@localhost", Type: stanza.MessageTypeChat}, Body: body}
		want, _ := xml.Marshal(m)
		return c08Send{tag, "send", want, func() error { return env.sender.Send(m) }}
	case 1:
		var eb bytes.Buffer
		xml.EscapeText(&eb, []byte(body))
		raw := "<message id='" + tag + "' to='peer@localhost'><body>" + eb.String() + "</body></message>"
		return c08Send{tag, "raw", []byte(raw), func() error { return env.sender.SendRaw(raw) }}
	default:
		iq, _ := stanza.NewIQ(stanza.Attrs{Type: stanza.IQTypeGet, Id: tag, To: "localhost"})
		iq.Payload = &stanza.DiscoInfo{Node: body}
		want, _ := xml.Marshal(iq)
		return c08Send{tag, "iq", want, func() error { _, err := env.sender.SendIQ(ctx, iq); return err }}
	}
}

func c08RunOne(w *tr.Writer, tid int, raw json.RawMessage, c *common) error {
	var sc c08Scen
	if err := json.Unmarshal(raw, &sc); err != nil {
		return err
	}
	stress := sc.G > 0
	w.Emit(tr.Rec{"ev": "reset", "tid": tid, "sm": sc.SM, "stress": stress})

	// gate: registered sender goroutines stop at the prewrite points
	var gmu sync.Mutex
	senderOf := map[string]int{}
	arrived := map[int]chan struct{}{}
	release := map[int]chan struct{}{}
	gate := func(name string) {
		if name != "send.prewrite" && name != "sendraw.prewrite" {
			return
		}
		gmu.Lock()
		s, ok := senderOf[goid()]
		gmu.Unlock()
		if !ok {
			return
		}
		arrived[s] <- struct{}{}
		<-release[s]
	}
	var g func(string)
	if !stress {
		g = gate
	}
	eo := envOpts{SM: sc.SM, Logger: sc.Logger, Gate: g, FailWrite: sc.FailAt, Partial: sc.Partial, WS: sc.WS, TLS: sc.TLS}
	var env *sessEnv
	var err error
	if sc.Comp {
		env, err = newCompEnv(w, tid, eo)
	} else {
		env, err = newSessEnv(w, tid, eo)
	}
	if err != nil {
		return err
	}
	var xmu sync.Mutex
	expect := map[string][]byte{}
	env.onElem = func(e *srv.Elem) {
		id := e.Attr["id"]
		xmu.Lock()
		want, ok := expect[id]
		xmu.Unlock()
		s, i := 0, 0
		if ok {
			fmt.Sscanf(id, "g%d-%d", &s, &i)
		} else if sc.Acks > 0 && id == "" && (e.Local == "r" || e.Local == "presence") {
			// a retransmission round: the initial presence (held like any stanza) and the request that ends the round
			return
		}
		rec := tr.Rec{"ev": "wire", "s": s, "i": i, "whole": ok && bytes.Equal(want, e.Raw), "x": ""}
		if !rec["whole"].(bool) {
			x := string(e.Raw)
			if len(x) > 160 {
				x = x[:160]
			}
			rec["x"] = x
		}
		w.Emit(rec)
	}
	env.startReader()
	ctx, cancel := context.WithCancel(context.Background())
	defer cancel()
	rng := rand.New(rand.NewSource(c.seed*7919 + int64(tid) + sc.Seed))
	stalled := false

	if stress {
		var wg sync.WaitGroup
		sends := make([][]c08Send, sc.G+1)
		for s := 1; s <= sc.G; s++ {
			for i := 1; i <= sc.M; i++ {
				sd := c08Make(env, ctx, s, i, rng, sc.Big)
				expect[sd.tag] = sd.want
				sends[s] = append(sends[s], sd)
			}
		}
		start := make(chan struct{})
		for s := 1; s <= sc.G; s++ {
			wg.Add(1)
			go func(s int) {
				defer wg.Done()
				<-start
				for i, sd := range sends[s] {
					err := sd.do()
					w.Emit(tr.Rec{"ev": "call", "s": s, "i": i + 1, "via": sd.via, "ok": err == nil})
				}
			}(s)
		}
		close(start)
		if sc.SM && sc.Acks > 0 && !sc.Comp {
			wg.Add(1)
			go func() {
				defer wg.Done()
				for k := 0; k < sc.Acks; k++ {
					time.Sleep(time.Duration(200+rng.Intn(3000)) * time.Microsecond)
					if env.conn.Write("<a xmlns='urn:xmpp:sm:3' h='0'/>") != nil {
						return
					}
				}
			}()
		}
		wg.Wait()
		if sc.SM && sc.Acks > 0 {
			// the retransmission that the last answer started
			env.drained(3 * time.Second)
			time.Sleep(150 * time.Millisecond)
		}
	} else {
		// gated replay of the TLC schedule
		type cmd struct{ sd c08Send }
		cmds := map[int]chan cmd{}
		returned := map[int]chan struct{}{}
		nsend := map[int]int{}
		senders := map[int]bool{}
		for _, st := range sc.Sched {
			senders[st.S] = true
		}
		for s := range senders {
			cmds[s] = make(chan cmd)
			arrived[s] = make(chan struct{}, 1)
			release[s] = make(chan struct{})
			returned[s] = make(chan struct{}, 1)
			ready := make(chan struct{})
			go func(s int) {
				gmu.Lock()
				senderOf[goid()] = s
				gmu.Unlock()
				close(ready)
				i := 0
				for cm := range cmds[s] {
					i++
					err := cm.sd.do()
					w.Emit(tr.Rec{"ev": "call", "s": s, "i": i, "via": cm.sd.via, "ok": err == nil})
					returned[s] <- struct{}{}
				}
			}(s)
			<-ready
		}
		atGate := map[int]bool{}
		dead := map[int]bool{}
		for _, st := range sc.Sched {
			if dead[st.S] {
				continue
			}
			switch st.Op {
			case "begin":
				nsend[st.S]++
				sd := c08Make(env, ctx, st.S, nsend[st.S], rng, false)
				xmu.Lock()
				expect[sd.tag] = sd.want
				xmu.Unlock()
				cmds[st.S] <- cmd{sd}
				select {
				case <-arrived[st.S]:
					atGate[st.S] = true
				case <-returned[st.S]:
					// the call returned without reaching the gate (hook moved?): finish is then a no-op
					returned[st.S] <- struct{}{}
				case <-time.After(5 * time.Second):
					stalled, dead[st.S] = true, true
				}
			case "finish":
				if atGate[st.S] {
					atGate[st.S] = false
					release[st.S] <- struct{}{} // the sender is parked in the gate (or about to be)
				}
				select {
				case <-returned[st.S]:
				case <-time.After(5 * time.Second):
					stalled, dead[st.S] = true, true
				}
			}
		}
		for s, at := range atGate {
			if at {
				release[s] <- struct{}{}
			}
		}
		for s := range cmds {
			if !dead[s] {
				close(cmds[s])
			}
		}
	}
	if !sc.Comp && env.run.get("send.prewrite")+env.run.get("sendraw.prewrite") == 0 {
		env.teardown()
		return fmt.Errorf("hook missing: send.prewrite never fired")
	}
	env.drained(3 * time.Second)
	env.run.mu.Lock()
	faulted := env.run.faulted
	env.run.mu.Unlock()
	if faulted {
		// the injected fault closed the client's socket: the server reads what was written before, then EOF
		select {
		case <-env.rdDone:
		case <-time.After(3 * time.Second):
		}
	}
	// queue snapshot
	qtags, qids := []string{}, []int{}
	if sc.SM && env.client != nil && env.client.Session != nil && env.client.Session.SMState.UnAckQueue != nil {
		for _, e := range env.client.Session.SMState.UnAckQueue.Uslice {
			if e == nil {
				qtags = append(qtags, "nil")
				qids = append(qids, 0)
				continue
			}
			t := "?"
			if m := idRe.FindStringSubmatch(e.Stz); m != nil {
				t = m[1]
			} else if strings.HasPrefix(e.Stz, "<presence") {
				t = "p0"
			}
			qtags = append(qtags, t)
			qids = append(qids, e.Id)
		}
	}
	w.Emit(tr.Rec{"ev": "quiet", "qtags": qtags, "qids": qids, "stall": stalled, "faulted": faulted, "acks": sc.SM && sc.Acks > 0})
	cancel()
	env.teardown()
	w.Emit(tr.Rec{"ev": "fin"})
	return nil
}

func runC08(args []string) error {
	c, fs := parseCommon("c08", args)
	stress := fs.Int("stress", 0, "number of seeded stress scenarios")
	fs.Parse(args)
	if c.worker {
		return runWorker(c, c08RunOne, func() error { sessInstallHooks(); return nil })
	}
	lines, err := c.loadScen()
	if err != nil {
		return err
	}
	var scens []tidScen
	tid := 0
	for _, ln := range lines {
		var sc c08Scen
		if err := json.Unmarshal(ln, &sc); err != nil {
			return err
		}
		// every TLC schedule with the stream logger off and on
		for _, lg := range []bool{false, true} {
			for _, pt := range []bool{false, true} {
				if pt && sc.FailAt == 0 {
					continue
				}
				sc.Logger, sc.Partial = lg, pt
				b, _ := json.Marshal(sc)
				tid++
				scens = append(scens, tidScen{tid, b})
			}
		}
		if sc.FailAt == 0 {
			sc.Logger, sc.Partial, sc.WS = false, false, true
			b, _ := json.Marshal(sc)
			tid++
			scens = append(scens, tidScen{tid, b})
			sc.WS = false
		}
	}
	rng := rand.New(rand.NewSource(c.seed))
	for i := 0; i < *stress; i++ {
		sc := c08Scen{SM: rng.Intn(2) == 0, Logger: rng.Intn(3) == 0, G: 2 + rng.Intn(7), M: 5 + rng.Intn(45), Seed: rng.Int63n(1 << 30), Big: rng.Intn(3) == 0}
		if rng.Intn(3) == 0 {
			sc.WS = true
		}
		if i%4 == 3 {
			sc.Comp, sc.WS, sc.SM, sc.Logger = true, false, false, false
			sc.Big = true
		}
		if rng.Intn(4) == 0 {
			sc.FailAt = 1 + rng.Intn(sc.G*sc.M)
			sc.Partial = rng.Intn(2) == 0
		}
		if i%5 == 4 && !sc.Comp && sc.FailAt == 0 {
			// stream management, and the server answers (acknowledging nothing) while the senders are at work
			sc.SM, sc.Acks = true, 1+rng.Intn(6)
		}
		if i%5 == 2 && !sc.Comp {
			// over STARTTLS, with payloads larger than one TLS record (16 kB): a sender that hands its stanza to the
			// connection in several pieces would let another sender in between
			sc.TLS, sc.WS, sc.Big, sc.FailAt, sc.Partial = true, false, true, 0, false
		}
		b, _ := json.Marshal(sc)
		tid++
		scens = append(scens, tidScen{1000000 + tid, b})
	}
	for _, s := range scens {
		c.recordScen(s.Tid, s.Scen)
	}
	c.closeScen()
	_ = strconv.Itoa
	return runMaster(c, "c08", scens, nil, 30*time.Second)
}
