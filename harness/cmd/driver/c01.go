package main

import (
	"bytes"
	"encoding/json"
	"encoding/xml"
	"fmt"
	"math/rand"
	"reflect"
	"sort"
	"strings"
	"time"

	"gosrc.io/xmpp/stanza"
	"verif/harness/tr"
)

// Family c01: stanza encode/decode round trip (Codec.tla). Abstract values enumerated by TLC
// (stanza kind, subset of addressing attributes, standard children, error shape, extensions or
// payload, class of the text put in every field) are built with the library's own types,
// marshalled, scanned into an element shape, parsed back with the library (inside a stream, as the
// receive loop does), and marshalled again.

func init() { register("c01", runC01) }

type c01Val struct {
	Kind  string   `json:"kind"`  // message | presence | iq | sm | auth | handshake
	Attrs []string `json:"attrs"` // subset of type id from to lang
	Std   bool     `json:"std"`   // standard children present (body/subject/thread, show/status/priority)
	Err   string   `json:"err"`   // none | full | notext | nocode
	Exts  []string `json:"exts"`  // registered extensions (message, presence) / payload (iq), in order
	TC    string   `json:"tc"`    // text class
	Seed  int64    `json:"seed,omitempty"`
}

var c01Texts = map[string][]string{
	"plain":  {"hello", "abc123"},
	"lt":     {"a<b", "<tag>", "</message>"},
	"gt":     {"a>b", "]]>x"},
	"amp":    {"a&b", "&amp;", "&#60;"},
	"quot":   {"say \"hi\"", "it's", "'\"'"},
	"cdata":  {"]]>", "<![CDATA[x]]>"},
	"lead":   {" lead", "\tlead"},
	"trail":  {"trail ", "trail\n"},
	"nonasc": {"üñï", "日本語", "😀"},
	"mixed":  {"<a href='x'>&amp;\"q\"</a> ]]> ü "},
	"ws":     {" ", "\n\t", "\u00a0", "  \n"},
	// carriage returns and tabs (a parser normalises a literal CR / CRLF to LF: they only survive as references)
	"ctrl": {"a\rb", "line1\r\nline2", "tab\there", "\r", "x\r\n", "\n\r"},
	// markup-dense text (many quotes / ampersands / brackets: where an encoder might switch to CDATA), with and without CR
	"dense": {"{\"a\":\"b\",\"c\":\"d\",\"e\":\"f\"}\r\n", "<p><b><i>&amp;&amp;&amp;&amp;</i></b></p>\r", "\"\"\"\"''''&&&&<<<<>>>>",
		"Header: \"v\"; k=\"w\"; x=\"y\"\r\nNext: <a> <b> <c> ]]> end", "&&&&&&&&\r&&&&&&&&"},
}

type c01Gen struct {
	rng *rand.Rand
	tc  string
	n   int
}

func (g *c01Gen) text() string {
	ts := c01Texts[g.tc]
	g.n++
	return ts[g.rng.Intn(len(ts))]
}

// populate fills every XML-mapped leaf of v (strings from the text class).
func (g *c01Gen) populate(v reflect.Value, depth int) {
	switch v.Kind() {
	case reflect.Ptr:
		if depth > 4 {
			return
		}
		if v.IsNil() {
			v.Set(reflect.New(v.Type().Elem()))
		}
		g.populate(v.Elem(), depth+1)
	case reflect.Struct:
		t := v.Type()
		if t == reflect.TypeOf(stanza.NullableInt{}) {
			v.Set(reflect.ValueOf(stanza.NewNullableInt(1 + g.rng.Intn(100)))) // has an unexported "is set" flag
			return
		}
		if t == reflect.TypeOf(time.Time{}) {
			v.Set(reflect.ValueOf(time.Date(2020, 2, 3, 4, 5, 6, 0, time.UTC)))
			return
		}
		for i := 0; i < t.NumField(); i++ {
			f := t.Field(i)
			if f.PkgPath != "" || f.Name == "XMLName" {
				continue
			}
			tag := f.Tag.Get("xml")
			if tag == "-" || strings.Contains(tag, ",innerxml") || strings.Contains(tag, ",comment") {
				continue
			}
			fv := v.Field(i)
			if !fv.CanSet() || fv.Kind() == reflect.Interface {
				continue
			}
			g.populate(fv, depth+1)
		}
	case reflect.String:
		if v.Type().Name() != "string" {
			return // enumerated string types (StanzaType, PresenceShow ...): set by the caller
		}
		v.SetString(g.text())
	case reflect.Slice:
		if depth > 4 || v.Type().Elem().Kind() == reflect.Interface || v.Type().Elem().Kind() == reflect.Uint8 {
			return
		}
		n := 1 + g.rng.Intn(2)
		s := reflect.MakeSlice(v.Type(), n, n)
		for i := 0; i < n; i++ {
			g.populate(s.Index(i), depth+1)
		}
		v.Set(s)
	case reflect.Bool:
		v.SetBool(true)
	case reflect.Int, reflect.Int8, reflect.Int16, reflect.Int32, reflect.Int64:
		v.SetInt(int64(1 + g.rng.Intn(100)))
	case reflect.Uint, reflect.Uint8, reflect.Uint16, reflect.Uint32, reflect.Uint64:
		v.SetUint(uint64(1 + g.rng.Intn(100)))
	}
}

// leaves returns the multiset of (path, value) of the XML-mapped leaves of x, zero values omitted.
func leaves(x interface{}) []string {
	var out []string
	var walk func(v reflect.Value, path string, depth int)
	walk = func(v reflect.Value, path string, depth int) {
		if depth > 12 {
			return
		}
		switch v.Kind() {
		case reflect.Ptr, reflect.Interface:
			if !v.IsNil() {
				walk(v.Elem(), path, depth+1)
			}
		case reflect.Struct:
			if v.Type() == reflect.TypeOf(xml.Name{}) {
				return
			}
			if tm, ok := v.Interface().(time.Time); ok {
				if !tm.IsZero() {
					out = append(out, path+"="+tm.UTC().Format(time.RFC3339))
				}
				return
			}
			if ni, ok := v.Interface().(stanza.NullableInt); ok {
				if n, set := ni.Get(); set {
					out = append(out, fmt.Sprintf("%s=%d", path, n))
				}
				return
			}
			t := v.Type()
			for i := 0; i < t.NumField(); i++ {
				f := t.Field(i)
				if f.PkgPath != "" || f.Name == "XMLName" || f.Tag.Get("xml") == "-" {
					continue
				}
				walk(v.Field(i), path+"."+f.Name, depth+1)
			}
		case reflect.Slice:
			if v.Type().Elem().Kind() == reflect.Uint8 {
				if v.Len() > 0 {
					out = append(out, path+"="+string(v.Bytes()))
				}
				return
			}
			for i := 0; i < v.Len(); i++ {
				walk(v.Index(i), path+"[]", depth+1)
			}
		case reflect.String:
			if v.String() != "" {
				out = append(out, path+"="+v.String())
			}
		case reflect.Bool:
			if v.Bool() {
				out = append(out, path+"=true")
			}
		case reflect.Int, reflect.Int8, reflect.Int16, reflect.Int32, reflect.Int64:
			if v.Int() != 0 {
				out = append(out, fmt.Sprintf("%s=%d", path, v.Int()))
			}
		case reflect.Uint, reflect.Uint8, reflect.Uint16, reflect.Uint32, reflect.Uint64:
			if v.Uint() != 0 {
				out = append(out, fmt.Sprintf("%s=%d", path, v.Uint()))
			}
		}
	}
	walk(reflect.ValueOf(x), "", 0)
	sort.Strings(out)
	return out
}

func firstDiff(a, b []string) string {
	for i := 0; i < len(a) || i < len(b); i++ {
		x, y := "", ""
		if i < len(a) {
			x = a[i]
		}
		if i < len(b) {
			y = b[i]
		}
		if x != y {
			s := "want " + x + " | got " + y
			if len(s) > 200 {
				s = s[:200]
			}
			return s
		}
	}
	return ""
}

// Extensions an application registers itself through the public registry (as _examples/custom_stanza does). Their
// local names are those of the core children of <message/> and <presence/>; only the namespace tells them apart.
const c01AppNS = "urn:example:appext:"

type c01XBody struct {
	stanza.MsgExtension
	XMLName xml.Name `xml:"urn:example:appext:rich body"`
	Format  string   `xml:"format,attr,omitempty"`
	Text    string   `xml:",chardata"`
}
type c01XSubject struct {
	stanza.MsgExtension
	XMLName xml.Name `xml:"urn:example:appext:rich subject"`
	Text    string   `xml:",chardata"`
}
type c01XThread struct {
	stanza.MsgExtension
	XMLName xml.Name `xml:"urn:example:appext:rich thread"`
	Parent  string   `xml:"parent,attr,omitempty"`
}
type c01XError struct {
	stanza.MsgExtension
	XMLName xml.Name `xml:"urn:example:appext:app error"`
	Code    string   `xml:"code,attr,omitempty"`
	Detail  string   `xml:"detail,omitempty"`
}
type c01XShow struct {
	stanza.PresExtension
	XMLName xml.Name `xml:"urn:example:appext:pres show"`
	Text    string   `xml:",chardata"`
}
type c01XStatus struct {
	stanza.PresExtension
	XMLName  xml.Name `xml:"urn:example:appext:pres status"`
	Activity string   `xml:"activity,attr,omitempty"`
	Text     string   `xml:",chardata"`
}
type c01XPriority struct {
	stanza.PresExtension
	XMLName xml.Name `xml:"urn:example:appext:pres priority"`
	Text    string   `xml:",chardata"`
}
type c01XPError struct {
	stanza.PresExtension
	XMLName xml.Name `xml:"urn:example:appext:pres error"`
	Code    string   `xml:"code,attr,omitempty"`
}

func init() {
	reg := func(k stanza.PacketType, space, local string, v interface{}) {
		stanza.TypeRegistry.MapExtension(k, xml.Name{Space: c01AppNS + space, Local: local}, v)
	}
	reg(stanza.PKTMessage, "rich", "body", c01XBody{})
	reg(stanza.PKTMessage, "rich", "subject", c01XSubject{})
	reg(stanza.PKTMessage, "rich", "thread", c01XThread{})
	reg(stanza.PKTMessage, "app", "error", c01XError{})
	reg(stanza.PKTPresence, "pres", "show", c01XShow{})
	reg(stanza.PKTPresence, "pres", "status", c01XStatus{})
	reg(stanza.PKTPresence, "pres", "priority", c01XPriority{})
	reg(stanza.PKTPresence, "pres", "error", c01XPError{})
}

// message / presence extensions and IQ payloads: constructors of empty instances
var c01MsgExt = map[string]func() interface{}{
	"oob": func() interface{} { return &stanza.OOB{} }, "rreq": func() interface{} { return &stanza.ReceiptRequest{} },
	"rrcv": func() interface{} { return &stanza.ReceiptReceived{} }, "markable": func() interface{} { return &stanza.Markable{} },
	"mrcv": func() interface{} { return &stanza.MarkReceived{} }, "mdisp": func() interface{} { return &stanza.MarkDisplayed{} },
	"mack": func() interface{} { return &stanza.MarkAcknowledged{} }, "active": func() interface{} { return &stanza.StateActive{} },
	"composing": func() interface{} { return &stanza.StateComposing{} }, "gone": func() interface{} { return &stanza.StateGone{} },
	"inactive": func() interface{} { return &stanza.StateInactive{} }, "paused": func() interface{} { return &stanza.StatePaused{} },
	"nps": func() interface{} { return &stanza.HintNoPermanentStore{} }, "nostore": func() interface{} { return &stanza.HintNoStore{} },
	"nocopy": func() interface{} { return &stanza.HintNoCopy{} }, "store": func() interface{} { return &stanza.HintStore{} },
	"xbody": func() interface{} { return &c01XBody{} }, "xsubject": func() interface{} { return &c01XSubject{} },
	"xthread": func() interface{} { return &c01XThread{} }, "xerror": func() interface{} { return &c01XError{} },
}
var c01PresExt = map[string]func() interface{}{"muc": func() interface{} { return &stanza.MucPresence{} },
	"xshow": func() interface{} { return &c01XShow{} }, "xstatus": func() interface{} { return &c01XStatus{} },
	"xpriority": func() interface{} { return &c01XPriority{} }, "xperror": func() interface{} { return &c01XPError{} },
}
var c01IQPl = map[string]func() stanza.IQPayload{
	"version": func() stanza.IQPayload { return &stanza.Version{} }, "discoinfo": func() stanza.IQPayload { return &stanza.DiscoInfo{} },
	"discoitems": func() stanza.IQPayload { return &stanza.DiscoItems{} }, "bind": func() stanza.IQPayload { return &stanza.Bind{} },
	"roster": func() stanza.IQPayload { return &stanza.Roster{} },
}

// shape: the element structure of a document, text replaced by nothing
func c01Shape(b []byte) ([]string, bool) {
	d := xml.NewDecoder(bytes.NewReader(b))
	out := []string{}
	depth := 0
	for {
		t, err := d.Token()
		if err != nil {
			return out, depth == 0 && len(out) > 0
		}
		switch tt := t.(type) {
		case xml.StartElement:
			names := []string{}
			for _, a := range tt.Attr {
				if a.Name.Local != "xmlns" && a.Name.Space != "xmlns" {
					names = append(names, a.Name.Local)
				}
			}
			local := tt.Name.Local
			if strings.HasPrefix(tt.Name.Space, c01AppNS) {
				local = "app:" + local // an application-registered extension: its name is the qualified one
			}
			out = append(out, fmt.Sprintf("%d<%s %s>", depth, local, strings.Join(names, ",")))
			depth++
		case xml.EndElement:
			depth--
		}
	}
}

// c01Norm removes the default-namespace declaration from the root start tag.
func c01Norm(b []byte) []byte {
	end := bytes.IndexByte(b, '>')
	if end < 0 {
		return b
	}
	head := bytes.Replace(b[:end], []byte(` xmlns="jabber:client"`), nil, 1)
	return append(append([]byte{}, head...), b[end:]...)
}

const c01StreamOpen = "<stream:stream xmlns='jabber:client' xmlns:stream='http://etherx.jabber.org/streams'>"

func c01Parse(b []byte) (stanza.Packet, error) {
	d := xml.NewDecoder(strings.NewReader(c01StreamOpen + string(b)))
	if _, err := stanza.InitStream(d); err != nil {
		return nil, err
	}
	return stanza.NextPacket(d)
}

func has(xs []string, x string) bool {
	for _, y := range xs {
		if y == x {
			return true
		}
	}
	return false
}

func c01Build(v c01Val, g *c01Gen) (interface{}, error) {
	a := stanza.Attrs{}
	if has(v.Attrs, "id") {
		a.Id = g.text()
	}
	if has(v.Attrs, "from") {
		a.From = g.text()
	}
	if has(v.Attrs, "to") {
		a.To = g.text()
	}
	if has(v.Attrs, "lang") {
		a.Lang = "en"
	}
	mkErr := func() stanza.Err {
		e := stanza.Err{}
		switch v.Err {
		case "full":
			e = stanza.Err{Code: 404, Type: stanza.ErrorTypeCancel, Reason: "item-not-found", Text: g.text()}
		case "notext":
			e = stanza.Err{Code: 503, Type: stanza.ErrorTypeWait, Reason: "service-unavailable"}
		case "nocode":
			e = stanza.Err{Type: stanza.ErrorTypeModify, Reason: "bad-request", Text: g.text()}
		}
		return e
	}
	switch v.Kind {
	case "message":
		if has(v.Attrs, "type") {
			a.Type = stanza.MessageTypeChat
		}
		m := stanza.NewMessage(a)
		if v.Std {
			m.Subject, m.Body, m.Thread = g.text(), g.text(), g.text()
		}
		m.Error = mkErr()
		for _, e := range v.Exts {
			x := c01MsgExt[e]()
			g.populate(reflect.ValueOf(x), 0)
			m.Extensions = append(m.Extensions, x)
		}
		return m, nil
	case "presence":
		if has(v.Attrs, "type") {
			a.Type = stanza.PresenceTypeUnavailable
		}
		p := stanza.NewPresence(a)
		if v.Std {
			p.Show, p.Status, p.Priority = stanza.PresenceShowAway, g.text(), 5
		}
		p.Error = mkErr()
		for _, e := range v.Exts {
			x := c01PresExt[e]()
			g.populate(reflect.ValueOf(x), 0)
			p.Extensions = append(p.Extensions, x)
		}
		return p, nil
	case "iq":
		a.Type = stanza.IQTypeSet
		if !has(v.Attrs, "type") {
			a.Type = stanza.IQTypeResult // an iq always has a type
		}
		if a.Id == "" {
			a.Id = "fixed-id" // NewIQ would generate a random one
		}
		iq, err := stanza.NewIQ(a)
		if err != nil {
			return nil, err
		}
		for _, e := range v.Exts {
			if e == "node" {
				iq.Any = &stanza.Node{XMLName: xml.Name{Space: "urn:example:unknown", Local: "thing"},
					Attrs:   []xml.Attr{{Name: xml.Name{Local: "k"}, Value: g.text()}},
					Content: g.text(), // mixed content: text next to child elements
					Nodes: []stanza.Node{{XMLName: xml.Name{Space: "urn:example:unknown", Local: "child"}, Content: g.text()},
						{XMLName: xml.Name{Space: "urn:example:other", Local: "deep"}, Nodes: []stanza.Node{{XMLName: xml.Name{Space: "urn:example:other", Local: "leaf"}, Content: g.text()}}}}}
				continue
			}
			pl := c01IQPl[e]()
			g.populate(reflect.ValueOf(pl), 0)
			iq.Payload = pl
		}
		if v.Err != "none" {
			e := mkErr()
			iq.Error = &e
		}
		return iq, nil
	}
	switch v.Kind {
	case "sm":
		var x interface{}
		switch v.Exts[0] {
		case "enable":
			x = &stanza.SMEnable{}
		case "enabled":
			x = &stanza.SMEnabled{}
		case "r":
			x = &stanza.SMRequest{}
		case "a":
			x = &stanza.SMAnswer{}
		case "resumed":
			x = &stanza.SMResumed{}
		case "resume":
			x = &stanza.SMResume{}
		case "failed":
			x = &stanza.SMFailed{}
		}
		g.populate(reflect.ValueOf(x), 0)
		return reflect.ValueOf(x).Elem().Interface(), nil
	case "auth":
		return stanza.SASLAuth{Mechanism: "PLAIN", Value: g.text()}, nil
	case "handshake":
		return stanza.Handshake{Value: g.text()}, nil
	}
	return nil, fmt.Errorf("kind %s", v.Kind)
}

func c01Run(w *tr.Writer, tid int, v c01Val, seed int64) {
	rec := tr.Rec{"ev": "rt", "tid": tid, "v": v, "marshalok": false, "parseok": false, "kindok": false, "leafeq": false, "bytes2eq": false,
		"shapeeq": false, "wf": false, "diff": "", "rootattrs": []string{}, "kids": []string{}}
	defer func() {
		if e := recover(); e != nil {
			rec["diff"] = fmt.Sprint("panic: ", e)
		}
		w.Emit(rec)
	}()
	g := &c01Gen{rng: rand.New(rand.NewSource(seed)), tc: v.TC}
	val, err := c01Build(v, g)
	if err != nil {
		rec["diff"] = "build: " + err.Error()
		return
	}
	b1, err := xml.Marshal(val)
	if err != nil {
		rec["diff"] = "marshal: " + err.Error()
		return
	}
	rec["marshalok"] = true
	// the same value with plain text everywhere: the element structure must be the same
	gp := &c01Gen{rng: rand.New(rand.NewSource(seed)), tc: "plain"}
	valp, _ := c01Build(v, gp)
	bp, _ := xml.Marshal(valp)
	s1, wf := c01Shape(b1)
	sp, _ := c01Shape(bp)
	rec["wf"] = wf
	rec["shapeeq"] = fmt.Sprint(s1) == fmt.Sprint(sp)
	if !rec["shapeeq"].(bool) {
		rec["diff"] = firstDiff(sp, s1)
	}
	// root attributes and direct children, for the specification's EncShape
	if len(s1) > 0 {
		root := s1[0]
		if i := strings.Index(root, " "); i > 0 {
			as := strings.TrimSuffix(root[i+1:], ">")
			if as != "" {
				rec["rootattrs"] = strings.Split(as, ",")
			}
		}
		kids := []string{}
		for _, s := range s1[1:] {
			if strings.HasPrefix(s, "1<") {
				n := s[2:]
				if i := strings.Index(n, " "); i > 0 {
					n = n[:i]
				}
				kids = append(kids, n)
			}
		}
		rec["kids"] = kids
	}
	var p stanza.Packet
	if v.Kind == "auth" || (v.Kind == "sm" && v.Exts[0] == "enable") {
		// the client never receives <auth/> or <enable/>: there is no stream decoder for them, the types are
		// parsed with xml.Unmarshal
		var a interface{} = &stanza.SASLAuth{}
		if v.Kind == "sm" {
			a = &stanza.SMEnable{}
		}
		err = xml.Unmarshal(b1, a)
		if err == nil {
			rec["parseok"], rec["kindok"] = true, true
			l1, l2 := leaves(val), leaves(a)
			rec["leafeq"] = fmt.Sprint(l1) == fmt.Sprint(l2)
			if !rec["leafeq"].(bool) && rec["diff"] == "" {
				rec["diff"] = firstDiff(l1, l2)
			}
			b2, _ := xml.Marshal(a)
			rec["bytes2eq"] = bytes.Equal(b1, b2)
		} else {
			rec["diff"] = "parse: " + err.Error()
		}
		return
	}
	p, err = c01Parse(b1)
	if err != nil {
		rec["diff"] = "parse: " + err.Error()
		return
	}
	rec["parseok"] = true
	var back interface{} = p
	if v.Kind == "sm" || v.Kind == "handshake" {
		rec["kindok"] = reflect.TypeOf(p) == reflect.TypeOf(val)
	}
	switch pp := p.(type) {
	case stanza.Message:
		rec["kindok"] = v.Kind == "message"
		back = pp
	case stanza.Presence:
		rec["kindok"] = v.Kind == "presence"
		back = pp
	case *stanza.IQ:
		rec["kindok"] = v.Kind == "iq"
		back = pp
	}
	l1, l2 := leaves(val), leaves(back)
	rec["leafeq"] = fmt.Sprint(l1) == fmt.Sprint(l2)
	if !rec["leafeq"].(bool) && rec["diff"] == "" {
		rec["diff"] = firstDiff(l1, l2)
	}
	b2, err := xml.Marshal(back)
	if err == nil {
		// the parser records the stream's default namespace on the root element (XMLName.Space), so the second
		// serialisation declares it: that declaration apart, the bytes must be identical
		rec["bytes2eq"] = bytes.Equal(c01Norm(b2), c01Norm(b1))
		if !rec["bytes2eq"].(bool) && rec["diff"] == "" {
			rec["diff"] = "second serialisation differs: " + firstDiff([]string{string(c01Norm(b1))}, []string{string(c01Norm(b2))})
		}
	}
}

func runC01(args []string) error {
	c, fs := parseCommon("c01", args)
	variants := fs.Int("variants", 2, "concretisations per abstract value")
	fs.Parse(args)
	w, err := tr.Create(c.out)
	if err != nil {
		return err
	}
	lines, err := c.loadScen()
	if err != nil {
		return err
	}
	rng := rand.New(rand.NewSource(c.seed))
	tid := 0
	for _, ln := range lines {
		var v c01Val
		if err := json.Unmarshal(ln, &v); err != nil {
			return err
		}
		if v.Seed != 0 {
			tid++
			c.recordScen(tid, v)
			c01Run(w, tid, v, v.Seed)
			continue
		}
		for k := 0; k < *variants; k++ {
			tid++
			v.Seed = 1 + rng.Int63n(1<<40)
			c.recordScen(tid, v)
			c01Run(w, tid, v, v.Seed)
		}
	}
	c.closeScen()
	fmt.Printf("SCENARIOS %d EVENTS %d\n", tid, w.N+1)
	return w.Close()
}
