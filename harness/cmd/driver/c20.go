package main

import (
	"encoding/json"
	"fmt"
	"math/rand"
	"net"
	"strconv"
	"strings"
	"time"
	"verif/harness/srv"

	xmpp "gosrc.io/xmpp"
	"verif/harness/tr"
)

// C20: every abstract address form from Address.tla is concretised with seeded literals and
// passed to NewClientTransport / NewComponentTransport; the dialled address is logged.

func init() { register("c20", runC20) }

type c20Form struct {
	Scheme string `json:"scheme"`
	Host   string `json:"host"`
	Br     bool   `json:"br"`
	Port   string `json:"port"`
	Who    string `json:"who"`
}
type c20Scen struct {
	Form  c20Form `json:"form"`
	Given *string `json:"given,omitempty"` // exact literal (replay)
	H     string  `json:"h,omitempty"`
	P     int     `json:"p,omitempty"`
	// Connect > 0: a listener is opened on the loopback interface (its port replaces P) and every XMPP transport
	// obtained is connected that many times; the address it would dial is observed again after each connection
	Connect int `json:"connect,omitempty"`
}

func c20Hex(rng *rand.Rand) string { return strconv.FormatInt(int64(rng.Intn(0x10000)), 16) }

func c20Host(rng *rand.Rand, form string, v int) string {
	switch form {
	case "dns":
		return []string{"localhost", "xmpp.example.org", "a-b.c-d.example", "xn--bcher-kva.example", "EXAMPLE.Com"}[v%5]
	case "dnsdot":
		return []string{"example.org.", "localhost."}[v%2]
	case "digits":
		return []string{"123-456.example", "1and1.com", "0x7f.1"}[v%3]
	case "single":
		return []string{"x", "h", "7"}[v%3]
	case "ipv4":
		if v == 0 {
			return "127.0.0.1"
		}
		return fmt.Sprintf("%d.%d.%d.%d", rng.Intn(256), rng.Intn(256), rng.Intn(256), rng.Intn(256))
	case "v6full":
		p := make([]string, 8)
		for i := range p {
			p[i] = c20Hex(rng)
		}
		return strings.Join(p, ":")
	case "v6comp":
		switch v % 4 {
		case 0:
			return "2001:db8::" + c20Hex(rng)
		case 1:
			return c20Hex(rng) + "::"
		case 2:
			return "::" + c20Hex(rng) + ":" + c20Hex(rng)
		default:
			return "fe80::" + c20Hex(rng) + ":" + c20Hex(rng) + ":" + c20Hex(rng)
		}
	case "v6mapped":
		switch v % 3 {
		case 0:
			return "::ffff:127.0.0.1"
		case 1:
			return fmt.Sprintf("::ffff:%d.%d.%d.%d", rng.Intn(256), rng.Intn(256), rng.Intn(256), rng.Intn(256))
		default:
			return "0:0:0:0:0:ffff:" + c20Hex(rng) + ":" + c20Hex(rng)
		}
	case "v6loop":
		return []string{"::1", "::", "0:0:0:0:0:0:0:1"}[v%3]
	case "v6zone":
		return []string{"fe80::1%eth0", "fe80::" + c20Hex(rng) + "%1"}[v%2]
	}
	panic("host form " + form)
}

func c20Run(w *tr.Writer, tid int, s c20Scen) {
	host, port := s.H, s.P
	if s.Connect > 0 {
		l, err := net.Listen("tcp", "127.0.0.1:0")
		if err != nil {
			return
		}
		defer l.Close()
		port = l.Addr().(*net.TCPAddr).Port
		go func() {
			for {
				c, err := l.Accept()
				if err != nil {
					return
				}
				go func(c net.Conn) {
					defer c.Close()
					c.SetDeadline(time.Now().Add(2 * time.Second))
					buf := make([]byte, 4096)
					c.Read(buf)
					c.Write([]byte(srv.StreamHeader("c20")))
					c.Read(buf)
				}(c)
			}
		}()
	}
	given := ""
	if s.Given != nil {
		given = *s.Given
	} else {
		switch s.Form.Scheme {
		case "ws":
			given = "ws://"
		case "wss":
			given = "wss://"
		}
		h := host
		if s.Form.Br {
			h = "[" + h + "]"
		}
		given += h
		if s.Form.Port == "given" {
			given += ":" + strconv.Itoa(port)
		}
		if s.Form.Scheme != "none" {
			given += "/xmpp-websocket"
		}
	}
	var observeAgain func(via string, t xmpp.Transport)
	var observe func(via string, t xmpp.Transport, err error)
	observeAgain = func(via string, t xmpp.Transport) { observe(via, t, nil) }
	observe = func(via string, t xmpp.Transport, err error) {
		rec := tr.Rec{"ev": "addr", "tid": tid, "form": s.Form, "given": given, "givenport": port, "via": via,
			"kind": "other", "addr": "", "splitok": false, "hosteq": false, "port": -1}
		switch tt := t.(type) {
		case *xmpp.XMPPTransport:
			rec["kind"] = "xmpp"
			a := tt.Config.Address
			rec["addr"] = a
			h, p, e := net.SplitHostPort(a)
			if e == nil {
				pn, e2 := strconv.Atoi(p)
				if e2 == nil && pn >= 0 && pn <= 65535 {
					rec["splitok"] = true
					rec["port"] = pn
					rec["hosteq"] = h == host
				}
			}
		case *xmpp.WebsocketTransport:
			rec["kind"] = "ws"
			rec["addr"] = tt.Config.Address
		default:
			if err != nil && t == nil {
				rec["kind"] = "refused"
			}
		}
		w.Emit(rec)
		if tt, ok := t.(*xmpp.XMPPTransport); ok && s.Connect > 0 && !strings.HasPrefix(via, "after") {
			for k := 1; k <= s.Connect; k++ {
				_, cerr := tt.Connect()
				observeAgain(fmt.Sprintf("after-connect-%d:%s:%v", k, via, cerr == nil), tt)
				if cerr == nil {
					tt.ReceivedStreamClose() // what the receive loop does when the server ends the stream: Close does not wait
				}
				tt.Close()
			}
		}
	}
	cfg := xmpp.TransportConfiguration{Address: given, Domain: "example.org", ConnectTimeout: 2}
	if s.Form.Who == "client" {
		observe("transport", xmpp.NewClientTransport(cfg), nil)
		// the same address through the public constructor: what a Client built from it would dial
		cl, err := xmpp.NewClient(&xmpp.Config{TransportConfiguration: xmpp.TransportConfiguration{Address: given}, ConnectTimeout: 2, Jid: "user@example.org/r",
			Credential: xmpp.Password("x")}, xmpp.NewRouter(), func(error) {})
		if err == nil && cl != nil {
			observe("newclient", xmpp.VerifClientTransport(cl), nil)
		} else {
			observe("newclient", nil, nil)
		}
	} else {
		t, err := xmpp.NewComponentTransport(cfg)
		observe("transport", t, err)
		if s.Form.Scheme != "none" {
			// through the Component itself: a ws: / wss: address is refused before anything is dialled
			cp, _ := xmpp.NewComponent(xmpp.ComponentOptions{TransportConfiguration: xmpp.TransportConfiguration{Address: given, ConnectTimeout: 1},
				Domain: "comp.example.org", Secret: "s"}, xmpp.NewRouter(), func(error) {})
			cerr := cp.Resume()
			observe("component", xmpp.VerifComponentTransport(cp), cerr)
		}
	}
}

func runC20(args []string) error {
	c, fs := parseCommon("c20", args)
	variants := fs.Int("variants", 6, "concretisations per form")
	allports := fs.Bool("allports", false, "try every port number for some forms")
	fs.Parse(args)
	w, err := tr.Create(c.out)
	if err != nil {
		return err
	}
	rng := rand.New(rand.NewSource(c.seed))
	tid := 0
	lines, err := c.loadScen()
	if err != nil {
		return err
	}
	ports := []int{1, 2, 80, 443, 5222, 5223, 5269, 5347, 8080, 9999, 10000, 32767, 32768, 49152, 65534, 65535}
	for _, ln := range lines {
		var s c20Scen
		if err := json.Unmarshal(ln, &s); err != nil {
			return err
		}
		if s.H != "" || s.Given != nil {
			tid++
			c.recordScen(tid, s)
			c20Run(w, tid, s)
			continue
		}
		var f c20Form
		if err := json.Unmarshal(ln, &f); err != nil {
			return err
		}
		for v := 0; v < *variants; v++ {
			sc := c20Scen{Form: f, H: c20Host(rng, f.Host, v), P: 0}
			if f.Port == "given" {
				if v < 4 {
					sc.P = []int{65535, 1, 5222, 65534}[v]
				} else if rng.Intn(2) == 0 {
					sc.P = ports[rng.Intn(len(ports))]
				} else {
					sc.P = 1 + rng.Intn(65535)
				}
			}
			tid++
			c.recordScen(tid, sc)
			c20Run(w, tid, sc)
		}
		if *allports && f.Port == "given" && f.Scheme == "none" {
			for p := 1; p <= 65535; p++ {
				sc := c20Scen{Form: f, H: c20Host(rng, f.Host, 0), P: p}
				tid++
				c.recordScen(tid, sc)
				c20Run(w, tid, sc)
			}
		}
	}
	// live connections: the address must still be the given one after the transport has connected (a transport is
	// reused for every reconnection); host names that resolve, IPv4 and IPv6 loopback literals
	for _, who := range []string{"client", "component"} {
		for _, hp := range [][2]string{{"dns", "localhost"}, {"ipv4", "127.0.0.1"}, {"dns", "LOCALHOST"}, {"dnsdot", "localhost."}} {
			sc := c20Scen{Form: c20Form{Scheme: "none", Host: hp[0], Port: "given", Who: who}, H: hp[1], Connect: 2}
			tid++
			c.recordScen(tid, sc)
			c20Run(w, tid, sc)
		}
	}
	c.closeScen()
	fmt.Printf("SCENARIOS %d EVENTS %d\n", tid, w.N+1)
	return w.Close()
}
