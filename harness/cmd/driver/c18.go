package main

import (
	"encoding/json"
	"encoding/xml"
	"errors"
	"fmt"
	"io"
	"net"
	"os"
	"sync"
	"sync/atomic"
	"time"

	xmpp "gosrc.io/xmpp"
	"verif/harness/srv"
	"verif/harness/tr"
)

// Family c18: the keepalive goroutine (Keepalive.tla). Mode "stub": the real keepalive function
// runs against a stub Transport and the harness ends the session at the phase the TLC behaviour
// says; mode "rate": a real client with a short interval, the server timestamps the whitespace it
// receives; mode "fail": a real client whose writes start failing while reads keep blocking.

func init() { register("c18", runC18) }

type c18Quit struct {
	After int    `json:"after"`
	Phase string `json:"phase"`
}
type c18Scen struct {
	FailAt int     `json:"failat"`
	Quit   c18Quit `json:"quit"`
	Ticks  int     `json:"ticks"`
	Mode   string  `json:"mode,omitempty"` // stub (default) | rate | fail
	IvMs   int     `json:"iv,omitempty"`
	SM     bool    `json:"sm,omitempty"`
	// ErrKind: what the failing Ping returns: "" = a plain error, "timeout" = a net.Error whose Timeout() is true
	ErrKind string `json:"errkind,omitempty"`
	// WS: the real client runs over the WebSocket transport; its keepalive is a WebSocket ping frame
	WS bool `json:"ws,omitempty"`
}

type stubTransport struct {
	errKind string
	w      *tr.Writer
	t0     time.Time
	failAt int
	pings  int32
	closes int32
	onPing func(i int)
}

func (s *stubTransport) ms() int                                { return int(time.Since(s.t0) / time.Millisecond) }
func (s *stubTransport) Connect() (string, error)               { return "", nil }
func (s *stubTransport) DoesStartTLS() bool                     { return false }
func (s *stubTransport) StartTLS() error                        { return nil }
func (s *stubTransport) LogTraffic(io.Writer)                   {}
func (s *stubTransport) StartStream() (string, error)           { return "", nil }
func (s *stubTransport) GetDecoder() *xml.Decoder               { return nil }
func (s *stubTransport) IsSecure() bool                         { return true }
func (s *stubTransport) Read(p []byte) (int, error)             { select {} }
func (s *stubTransport) Write(p []byte) (int, error)            { return len(p), nil }
func (s *stubTransport) ReceivedStreamClose()                   {}
func (s *stubTransport) Ping() error {
	i := int(atomic.AddInt32(&s.pings, 1))
	ok := !(s.failAt > 0 && i >= s.failAt)
	s.w.Emit(tr.Rec{"ev": "ping", "i": i, "ok": ok, "t": s.ms()})
	if s.onPing != nil {
		s.onPing(i)
	}
	if !ok {
		if s.errKind == "timeout" {
			return &net.OpError{Op: "write", Net: "tcp", Err: os.ErrDeadlineExceeded} // an expired write deadline
		}
		return errors.New("injected ping failure")
	}
	return nil
}
func (s *stubTransport) Close() error {
	atomic.AddInt32(&s.closes, 1)
	s.w.Emit(tr.Rec{"ev": "close", "t": s.ms()})
	return nil
}

func c18Stub(w *tr.Writer, tid int, sc c18Scen) error {
	iv := 12 * time.Millisecond
	quit := make(chan struct{})
	var once sync.Once
	st := &stubTransport{w: w, t0: time.Now(), failAt: sc.FailAt, errKind: sc.ErrKind}
	closeQuit := func(judged bool) {
		once.Do(func() {
			if judged {
				w.Emit(tr.Rec{"ev": "quit", "t": st.ms()})
			} else {
				w.Emit(tr.Rec{"ev": "stopobs", "t": st.ms()})
			}
			close(quit)
		})
	}
	run := &sessRun{cnt: map[string]int{}, w: w, tid: tid}
	run.cond = sync.NewCond(&run.mu)
	var nticks int32
	run.gate = func(name string) {
		if name == "ka.tick" {
			n := int(atomic.AddInt32(&nticks, 1))
			if sc.Quit.Phase == "attick" && n == sc.Quit.After+1 {
				closeQuit(true) // the tick is already consumed: this one ping may still go out
			}
		}
	}
	curRun.Store(run)
	defer curRun.Store(nil)
	w.Emit(tr.Rec{"ev": "reset", "tid": tid, "mode": "stub", "iv": int(iv / time.Millisecond), "failat": sc.FailAt, "quitafter": sc.Quit.After, "phase": sc.Quit.Phase})
	st.onPing = func(i int) {
		if sc.Quit.Phase == "idle" && i == sc.Quit.After {
			// the goroutine is back in its select well before the next tick is due
			time.AfterFunc(iv/4, func() { closeQuit(true) })
		}
	}
	if sc.Quit.Phase == "idle" && sc.Quit.After == 0 {
		closeQuit(true)
	}
	done := make(chan struct{})
	w.Emit(tr.Rec{"ev": "start", "t": st.ms()})
	go func() {
		xmpp.VerifKeepalive(st, iv, quit)
		w.Emit(tr.Rec{"ev": "exit", "t": st.ms()})
		close(done)
	}()
	// observe until the goroutine ends, or (no planned end) until enough ticks went by
	limit := time.Duration(sc.Ticks+3) * iv
	if sc.Quit.Phase != "never" || sc.FailAt > 0 {
		limit = time.Duration(sc.Quit.After+sc.FailAt+6) * iv
	}
	select {
	case <-done:
	case <-time.After(limit + 200*time.Millisecond):
	}
	// idle time during which nothing more may happen
	time.Sleep(3 * iv)
	w.Emit(tr.Rec{"ev": "obsend", "t": st.ms(), "hooks": run.get("ka.start")})
	closeQuit(false)
	select {
	case <-done:
	case <-time.After(2 * time.Second):
		w.Emit(tr.Rec{"ev": "note", "stall": "keepalive goroutine did not end"})
	}
	w.Emit(tr.Rec{"ev": "fin"})
	if run.get("ka.start") == 0 {
		return fmt.Errorf("hook missing: ka.start never fired")
	}
	return nil
}

func c18Real(w *tr.Writer, tid int, sc c18Scen) error {
	iv := time.Duration(sc.IvMs) * time.Millisecond
	mode := sc.Mode
	if mode == "fail2" {
		mode = "fail"
	}
	w.Emit(tr.Rec{"ev": "reset", "tid": tid, "mode": mode, "iv": sc.IvMs, "failat": sc.FailAt, "quitafter": 0, "phase": "never", "ws": sc.WS})
	o := envOpts{SM: sc.SM, Keepalive: iv, WS: sc.WS}
	if sc.Mode == "fail" || sc.Mode == "fail2" {
		o.FailWrite, o.KeepOpen = sc.FailAt, true
	}
	if sc.Mode == "ackfail" {
		o.FailWrite, o.KeepOpen, o.FailOnce, o.SM = 1, true, true, true
	}
	env, err := newSessEnv(w, tid, o)
	if err != nil {
		return err
	}
	t0 := time.Now()
	ms := func() int { return int(time.Since(t0) / time.Millisecond) }
	w.Emit(tr.Rec{"ev": "start", "t": 0})
	env.onWS = func(e *srv.Elem) {
		w.Emit(tr.Rec{"ev": "ping", "i": len(e.Raw), "ok": true, "t": ms()})
	}
	if sc.WS {
		wc, ok := env.conn.(*srv.WSConn)
		if !ok || !wc.OnPing(func() { w.Emit(tr.Rec{"ev": "ping", "i": 0, "ok": true, "t": ms()}) }) {
			env.close()
			return fmt.Errorf("precondition: no ping spy on the WebSocket connection")
		}
	}
	env.startReader()
	if sc.Mode == "rate" {
		time.Sleep(time.Duration(sc.Ticks) * iv)
		w.Emit(tr.Rec{"ev": "obsend", "t": ms(), "hooks": env.run.get("ka.start")})
		env.conn.Close()
		env.run.waitFor(3*time.Second, func(c map[string]int) bool { return c["recv.exit"] >= 1 && c["ka.exit"] >= c["ka.start"] })
		w.Emit(tr.Rec{"ev": "exit", "t": ms()})
	} else if sc.Mode == "ackfail" {
		// the session ends on the write path: the answer to <r/> cannot be written (just that one write fails).
		// Afterwards the keepalive of that session must be silent.
		env.conn.Write("<r xmlns='urn:xmpp:sm:3'/>")
		env.run.waitFor(3*time.Second, func(c map[string]int) bool { return c["recv.exit"] >= 1 })
		w.Emit(tr.Rec{"ev": "quit", "t": ms()})
		time.Sleep(8 * iv)
		if env.run.get("ka.exit") >= env.run.get("ka.start") {
			w.Emit(tr.Rec{"ev": "exit", "t": ms()})
		}
		w.Emit(tr.Rec{"ev": "obsend", "t": ms(), "hooks": env.run.get("ka.start")})
		env.conn.Close()
	} else {
		// writes fail from the FailAt-th on, reads block: the library has to close the connection itself;
		// the server then sees the end of the stream and the loss is reported once
		segment := func() {
			select {
			case <-env.rdDone:
				w.Emit(tr.Rec{"ev": "close", "t": ms()})
			case <-time.After(time.Duration(sc.FailAt+4)*iv + 2500*time.Millisecond):
			}
			exit0 := env.run.get("ka.exit")
			env.run.waitFor(2*time.Second, func(c map[string]int) bool { return c["recv.exit"] >= 1 && c["ka.exit"] >= c["ka.start"] })
			if env.run.get("ka.exit") >= 1 && env.run.get("ka.exit") >= exit0 && env.run.get("ka.exit") >= env.run.get("ka.start") {
				w.Emit(tr.Rec{"ev": "exit", "t": ms()})
			}
			time.Sleep(3 * iv)
			w.Emit(tr.Rec{"ev": "obsend", "t": ms(), "hooks": env.run.get("ka.start")})
			env.conn.Close()
		}
		segment()
		if sc.Mode == "fail2" {
			// the same client connects again; the transport object is the same: a failing keepalive must close again
			env.run.mu.Lock()
			env.run.cnt["recv.exit"] = 0
			env.run.mu.Unlock()
			if err := env.reconnect(o); err != nil {
				env.close()
				return err
			}
			t0 = time.Now()
			w.Emit(tr.Rec{"ev": "reset", "tid": tid, "mode": "fail", "iv": sc.IvMs, "failat": sc.FailAt, "quitafter": 0, "phase": "second-session"})
			w.Emit(tr.Rec{"ev": "start", "t": 0})
			env.startReader()
			segment()
		}
	}
	select {
	case <-env.rdDone:
	case <-time.After(2 * time.Second):
	}
	env.close()
	w.Emit(tr.Rec{"ev": "fin"})
	return nil
}

func c18RunOne(w *tr.Writer, tid int, raw json.RawMessage, c *common) error {
	var sc c18Scen
	if err := json.Unmarshal(raw, &sc); err != nil {
		return err
	}
	if sc.Mode == "" || sc.Mode == "stub" {
		return c18Stub(w, tid, sc)
	}
	return c18Real(w, tid, sc)
}

func runC18(args []string) error {
	c, fs := parseCommon("c18", args)
	fs.Parse(args)
	if c.worker {
		return runWorker(c, c18RunOne, func() error { sessInstallHooks(); return nil })
	}
	lines, err := c.loadScen()
	if err != nil {
		return err
	}
	var scens []tidScen
	tid := 0
	seen := map[string]bool{}
	for _, ln := range lines {
		if seen[string(ln)] {
			continue
		}
		seen[string(ln)] = true
		tid++
		scens = append(scens, tidScen{tid, ln})
		var sc c18Scen
		if json.Unmarshal(ln, &sc) == nil && sc.FailAt > 0 {
			sc.ErrKind = "timeout"
			b, _ := json.Marshal(sc)
			tid++
			scens = append(scens, tidScen{tid, b})
		}
	}
	// real-client runs: intervals, write failure at the k-th keepalive
	add := func(sc c18Scen) {
		b, _ := json.Marshal(sc)
		tid++
		scens = append(scens, tidScen{1000000 + tid, b})
	}
	ivs := []int{5, 10, 20, 40}
	if c.tier == "thorough" {
		ivs = []int{5, 8, 10, 15, 20, 30, 40, 80, 150}
	}
	for _, iv := range ivs {
		for _, sm := range []bool{false, true} {
			add(c18Scen{Mode: "rate", IvMs: iv, Ticks: 12, SM: sm})
		}
	}
	for k := 1; k <= 4; k++ {
		add(c18Scen{Mode: "fail", IvMs: 15, FailAt: k})
		add(c18Scen{Mode: "fail", IvMs: 15, FailAt: k, SM: true})
	}
	// the same over the WebSocket transport (ping frames seen by the server's frame spy)
	for _, iv := range []int{10, 25} {
		add(c18Scen{Mode: "rate", IvMs: iv, Ticks: 12, WS: true})
		add(c18Scen{Mode: "rate", IvMs: iv, Ticks: 12, SM: true, WS: true})
	}
	for k := 1; k <= 3; k++ {
		add(c18Scen{Mode: "fail", IvMs: 15, FailAt: k, WS: true})
	}
	add(c18Scen{Mode: "fail2", IvMs: 15, FailAt: 1})
	add(c18Scen{Mode: "fail2", IvMs: 15, FailAt: 2, SM: true})
	add(c18Scen{Mode: "ackfail", IvMs: 10})
	add(c18Scen{Mode: "ackfail", IvMs: 25})
	for _, s := range scens {
		c.recordScen(s.Tid, s.Scen)
	}
	c.closeScen()
	return runMaster(c, "c18", scens, nil, 30*time.Second)
}
