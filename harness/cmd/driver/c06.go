package main

import (
	"context"
	"encoding/json"
	"encoding/xml"
	"fmt"
	"math/rand"
	"strings"
	"sync"

	xmpp "gosrc.io/xmpp"
	"gosrc.io/xmpp/stanza"
	"verif/harness/tr"
)

// C06: build the route table through the public builder API, decode the packet from wire
// XML with the library's own parser (as the receive loop does) and call Router.route.

func init() { register("c06", runC06) }

type c06Route struct {
	Name  string   `json:"name"`
	Types []string `json:"types"`
	Ns    []string `json:"ns"`
}
type c06Pkt struct {
	K    string `json:"k"`
	Type string `json:"type"`
	Pns  string `json:"pns"`
	Addr string `json:"addr"`
}
type c06Disp struct {
	After int    `json:"after"` // routes registered before this dispatch
	Pkt   c06Pkt `json:"pkt"`
}
type c06Scen struct {
	Table []c06Route `json:"table"`
	Pkt   c06Pkt     `json:"pkt"`
	// history mode: ONE router; the routes of Table are registered one by one and the packets of Disp are dispatched
	// in between (Disp[i] after the first Disp[i].After routes)
	Disp []c06Disp `json:"disp,omitempty"`
}

var c06NS = map[string]string{"A": "jabber:iq:version", "B": "http://jabber.org/protocol/disco#info"}

// recSender records what route() sends back
type recSender struct {
	mu   sync.Mutex
	sent []stanza.Packet
	raw  []string
}

func (r *recSender) Send(p stanza.Packet) error {
	r.mu.Lock()
	defer r.mu.Unlock()
	// keep a serialised copy: route() mutates the request in place
	r.sent = append(r.sent, p)
	b, _ := xml.Marshal(p)
	r.raw = append(r.raw, string(b))
	return nil
}
func (r *recSender) SendIQ(ctx context.Context, iq *stanza.IQ) (chan stanza.IQ, error) {
	r.Send(iq)
	return nil, nil
}
func (r *recSender) SendRaw(s string) error {
	r.mu.Lock()
	defer r.mu.Unlock()
	r.raw = append(r.raw, s)
	r.sent = append(r.sent, nil)
	return nil
}

func c06Wire(p c06Pkt, id, from, to string) string {
	attrs := ""
	if p.Type != "" && p.K != "nonstanza" {
		attrs += fmt.Sprintf(" type='%s'", p.Type)
	}
	attrs += fmt.Sprintf(" id='%s'", id)
	if p.Addr == "both" || p.Addr == "noto" {
		attrs += fmt.Sprintf(" from='%s'", from)
	}
	if p.Addr == "both" || p.Addr == "nofrom" {
		attrs += fmt.Sprintf(" to='%s'", to)
	}
	switch p.K {
	case "message":
		return "<message xmlns='jabber:client'" + attrs + "><body>hi</body></message>"
	case "presence":
		return "<presence xmlns='jabber:client'" + attrs + "><status>s</status></presence>"
	case "iq":
		inner := ""
		switch p.Pns {
		case "A", "B":
			inner = fmt.Sprintf("<query xmlns='%s'/>", c06NS[p.Pns])
		case "U":
			inner = "<thing xmlns='urn:example:unregistered'><x/></thing>"
		}
		if p.Type == "error" {
			inner += "<error type='cancel' code='503'><service-unavailable xmlns='urn:ietf:params:xml:ns:xmpp-stanzas'/></error>"
		}
		return "<iq xmlns='jabber:client'" + attrs + ">" + inner + "</iq>"
	default:
		if p.Type == "features" {
			return "<stream:features xmlns:stream='http://etherx.jabber.org/streams'><bind xmlns='urn:ietf:params:xml:ns:xmpp-bind'/></stream:features>"
		}
		return "<failed xmlns='urn:xmpp:sm:3'/>"
	}
}

func c06Run(w *tr.Writer, tid int, s c06Scen, rng *rand.Rand) error {
	if len(s.Disp) > 0 {
		r := xmpp.NewRouter()
		var mu sync.Mutex
		invoked := []int{}
		reg := 0
		for _, d := range s.Disp {
			for reg < d.After && reg < len(s.Table) {
				c06Register(r, s.Table[reg], reg+1, &mu, &invoked)
				reg++
			}
			mu.Lock()
			invoked = invoked[:0]
			mu.Unlock()
			one := c06Scen{Table: s.Table[:reg], Pkt: d.Pkt}
			if err := c06Dispatch(w, tid, one, rng, r, &mu, &invoked); err != nil {
				return err
			}
		}
		return nil
	}
	r := xmpp.NewRouter()
	var mu sync.Mutex
	invoked := []int{}
	for i, rt := range s.Table {
		c06Register(r, rt, i+1, &mu, &invoked)
	}
	return c06Dispatch(w, tid, s, rng, r, &mu, &invoked)
}

func c06Register(r *xmpp.Router, rt c06Route, idx int, mu *sync.Mutex, invoked *[]int) {
	route := r.NewRoute()
	if rt.Name != "-" {
		route.Packet(rt.Name)
	}
	if !(len(rt.Types) == 1 && rt.Types[0] == "*") {
		route.StanzaType(append([]string{}, rt.Types...)...)
	}
	if !(len(rt.Ns) == 1 && rt.Ns[0] == "*") {
		ns := []string{}
		for _, n := range rt.Ns {
			ns = append(ns, c06NS[n])
		}
		route.IQNamespaces(ns...)
	}
	route.HandlerFunc(func(s xmpp.Sender, p stanza.Packet) {
		mu.Lock()
		*invoked = append(*invoked, idx)
		mu.Unlock()
	})
}

func c06Dispatch(w *tr.Writer, tid int, s c06Scen, rng *rand.Rand, r *xmpp.Router, mu *sync.Mutex, invokedP *[]int) error {
	id := fmt.Sprintf("q%d", rng.Intn(100000))
	from := fmt.Sprintf("peer%d@example.net/r", rng.Intn(1000))
	to := fmt.Sprintf("me%d@example.org/x", rng.Intn(1000))
	wire := c06Wire(s.Pkt, id, from, to)
	dec := xml.NewDecoder(strings.NewReader("<stream:stream xmlns='jabber:client' xmlns:stream='http://etherx.jabber.org/streams'>" + wire))
	if _, err := stanza.InitStream(dec); err != nil {
		return err
	}
	pkt, err := stanza.NextPacket(dec)
	if err != nil {
		return fmt.Errorf("harness packet does not parse: %v: %s", err, wire)
	}
	snd := &recSender{}
	panicked := false
	func() {
		defer func() {
			if e := recover(); e != nil {
				panicked = true
			}
		}()
		xmpp.VerifRoute(r, snd, pkt)
	}()
	replies := []tr.Rec{}
	for _, raw := range snd.raw {
		rep := tr.Rec{"kind": "other", "type": "", "ideq": false, "swapped": false, "cond": ""}
		d2 := xml.NewDecoder(strings.NewReader("<stream:stream xmlns='jabber:client' xmlns:stream='http://etherx.jabber.org/streams'>" + raw))
		stanza.InitStream(d2)
		// observe the reply with a plain XML scan, independent of the library's types
		var cur []string
		for {
			t, err := d2.Token()
			if err != nil {
				break
			}
			switch tt := t.(type) {
			case xml.StartElement:
				cur = append(cur, tt.Name.Local)
				if len(cur) == 1 {
					rep["kind"] = tt.Name.Local
					var rid, rfrom, rto string
					for _, a := range tt.Attr {
						switch a.Name.Local {
						case "type":
							rep["type"] = a.Value
						case "id":
							rid = a.Value
						case "from":
							rfrom = a.Value
						case "to":
							rto = a.Value
						}
					}
					rep["ideq"] = rid == id
					wantFrom, wantTo := "", ""
					if s.Pkt.Addr == "both" || s.Pkt.Addr == "nofrom" {
						wantFrom = to
					}
					if s.Pkt.Addr == "both" || s.Pkt.Addr == "noto" {
						wantTo = from
					}
					rep["swapped"] = rfrom == wantFrom && rto == wantTo
				}
				if len(cur) == 3 && cur[1] == "error" && tt.Name.Space == "urn:ietf:params:xml:ns:xmpp-stanzas" && tt.Name.Local != "text" {
					rep["cond"] = tt.Name.Local
				}
			case xml.EndElement:
				if len(cur) > 0 {
					cur = cur[:len(cur)-1]
				}
			}
		}
		replies = append(replies, rep)
	}
	if s.Table == nil {
		s.Table = []c06Route{}
	}
	mu.Lock()
	invoked := append([]int{}, (*invokedP)...)
	mu.Unlock()
	w.Emit(tr.Rec{"ev": "route", "tid": tid, "table": s.Table, "pkt": s.Pkt, "invoked": invoked, "replies": replies, "panic": panicked})
	return nil
}

func runC06(args []string) error {
	c, fs := parseCommon("c06", args)
	fs.Parse(args)
	w, err := tr.Create(c.out)
	if err != nil {
		return err
	}
	rng := rand.New(rand.NewSource(c.seed))
	tid := 0
	lines, err := c.loadScen()
	if err != nil {
		return err
	}
	for _, ln := range lines {
		var s c06Scen
		if err := json.Unmarshal(ln, &s); err != nil {
			return err
		}
		tid++
		c.recordScen(tid, s)
		if err := c06Run(w, tid, s, rng); err != nil {
			return err
		}
	}
	// seeded random: longer tables (up to 6 routes)
	names := []string{"-", "message", "iq", "presence"}
	typesets := [][]string{{"*"}, {"normal"}, {"chat"}, {"get"}, {"set", "result"}, {"error"}, {"unavailable", "get"}, {"get", "set"}, {"result"}}
	nssets := [][]string{{"*"}, {"A"}, {"B"}, {"A", "B"}}
	for i := 0; i < c.n; i++ {
		var s c06Scen
		for k, n := 0, rng.Intn(7); k < n; k++ {
			s.Table = append(s.Table, c06Route{names[rng.Intn(4)], typesets[rng.Intn(len(typesets))], nssets[rng.Intn(len(nssets))]})
		}
		switch rng.Intn(7) {
		case 0:
			s.Pkt = c06Pkt{"message", []string{"", "chat", "normal", "error"}[rng.Intn(4)], "-", "both"}
		case 1:
			s.Pkt = c06Pkt{"presence", []string{"", "unavailable", "error"}[rng.Intn(3)], "-", "both"}
		case 2:
			s.Pkt = c06Pkt{"nonstanza", []string{"features", "smfailed"}[rng.Intn(2)], "-", "both"}
		default:
			s.Pkt = c06Pkt{"iq", []string{"get", "set", "result", "error"}[rng.Intn(4)], []string{"A", "B", "U", "-"}[rng.Intn(4)],
				[]string{"both", "nofrom", "noto", "none"}[rng.Intn(4)]}
		}
		tid++
		c.recordScen(1000000+tid, s)
		if err := c06Run(w, 1000000+tid, s, rng); err != nil {
			return err
		}
	}
	c.closeScen()
	fmt.Printf("SCENARIOS %d EVENTS %d\n", tid, w.N+1)
	return w.Close()
}
