// driver executes scenarios (TLC-generated behaviours or seeded random ones)
// against the real gosrc.io/xmpp code built from /repo's working tree and
// records NDJSON traces that TLC validates against the TLA+ specifications.
package main

import (
	"bufio"
	"encoding/json"
	"flag"
	"fmt"
	"os"
	"sync"

	"verif/harness/tr"
)

type family struct {
	name string
	run  func(args []string) error
}

var families = map[string]func(args []string) error{}

func register(name string, f func(args []string) error) { families[name] = f }

func main() {
	if len(os.Args) < 2 {
		fmt.Fprintln(os.Stderr, "usage: driver <family> [flags]")
		os.Exit(2)
	}
	f, ok := families[os.Args[1]]
	if !ok {
		fmt.Fprintln(os.Stderr, "unknown family", os.Args[1])
		os.Exit(2)
	}
	if err := f(os.Args[2:]); err != nil {
		fmt.Fprintln(os.Stderr, "driver error:", err)
		os.Exit(2)
	}
}

// common flags
type common struct {
	scen  string
	out   string
	seed  int64
	n     int
	tier  string
	extra string
	scenout string
	worker  bool
	journal string
	workers int

	soMu sync.Mutex
	so   *bufio.Writer
	sof  *os.File
}

// loadScen reads the TLC-generated scenario file (one JSON object per line; tid = line number).
func (c *common) loadScen() ([]json.RawMessage, error) {
	if c.scen == "" {
		return nil, nil
	}
	return tr.ReadLines(c.scen)
}

// recordScen writes every executed scenario with its trace id, so that a verdict can be
// turned into a replay file.
func (c *common) recordScen(tid int, scen interface{}) {
	if c.scenout == "" {
		return
	}
	c.soMu.Lock()
	defer c.soMu.Unlock()
	if c.so == nil {
		f, err := os.Create(c.scenout)
		if err != nil {
			panic(err)
		}
		c.sof = f
		c.so = bufio.NewWriterSize(f, 1<<20)
	}
	b, _ := json.Marshal(map[string]interface{}{"tid": tid, "scen": scen})
	c.so.Write(b)
	c.so.WriteByte('\n')
}

func (c *common) closeScen() {
	c.soMu.Lock()
	defer c.soMu.Unlock()
	if c.so != nil {
		c.so.Flush()
		c.sof.Close()
	}
}

func parseCommon(name string, args []string) (*common, *flag.FlagSet) {
	fs := flag.NewFlagSet(name, flag.ExitOnError)
	c := &common{}
	fs.StringVar(&c.scen, "scen", "", "scenario file (JSON lines) from TLC")
	fs.StringVar(&c.out, "out", "", "trace output file (NDJSON)")
	fs.Int64Var(&c.seed, "seed", 1, "seed for random choices")
	fs.IntVar(&c.n, "n", 0, "number of random scenarios")
	fs.StringVar(&c.tier, "tier", "quick", "tier")
	fs.StringVar(&c.extra, "extra", "", "family specific")
	fs.StringVar(&c.scenout, "scenout", "", "file receiving every executed scenario with its trace id")
	fs.BoolVar(&c.worker, "worker", false, "run as a worker subprocess")
	fs.StringVar(&c.journal, "journal", "", "worker journal file")
	fs.IntVar(&c.workers, "workers", 0, "number of worker subprocesses (default: CPUs)")
	return c, fs
}
