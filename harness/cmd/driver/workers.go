package main

import (
	"sync/atomic"
	"regexp"
	"bufio"
	"encoding/json"
	"fmt"
	"os"
	"os/exec"
	"path/filepath"
	"runtime"
	"sort"
	"strconv"
	"strings"
	"sync"
	"time"

	"verif/harness/tr"
)

// Scenarios that start library goroutines run in worker subprocesses: a panic inside a
// library goroutine kills only the worker. The master re-runs nothing: it records a `crash`
// event for the scenario the worker died in (journal) and restarts a worker on the rest.

type tidScen struct {
	Tid  int             `json:"tid"`
	Scen json.RawMessage `json:"scen"`
}

// scenRunner executes one scenario inside a worker and emits its events (starting with reset).
type scenRunner func(w *tr.Writer, tid int, scen json.RawMessage, c *common) error

var workerFlag, journalFlag string

// runWorker is the body of `driver <family> -worker`.
func runWorker(c *common, run scenRunner, setup func() error) error {
	lines, err := tr.ReadLines(c.scen)
	if err != nil {
		return err
	}
	w, err := tr.Create(c.out)
	if err != nil {
		return err
	}
	w.Sync = true
	j, err := os.Create(c.journal)
	if err != nil {
		return err
	}
	if setup != nil {
		if err := setup(); err != nil {
			return err
		}
	}
	// time budget: when the code under test makes every scenario slow (blocked goroutines, timeouts), the
	// worker stops after its budget instead of running for hours; what was observed is still judged
	budget := 150 * time.Second
	if c.tier == "thorough" {
		budget = 1500 * time.Second
	}
	t0 := time.Now()
	for i, ln := range lines {
		var ts tidScen
		if err := json.Unmarshal(ln, &ts); err != nil {
			return err
		}
		if time.Since(t0) > budget {
			fmt.Printf("NOTE worker stopped after its time budget: %d of %d scenarios run\n", i, len(lines))
			break
		}
		fmt.Fprintf(j, "B %d\n", ts.Tid)
		err := run(w, ts.Tid, ts.Scen, c)
		for attempt := 0; err != nil && strings.HasPrefix(err.Error(), "precondition:") && attempt < 3; attempt++ {
			// the scripted happy-path negotiation did not complete (loaded machine): the scenario has not
			// started, run it again
			w.Emit(tr.Rec{"ev": "note", "retry": err.Error()})
			time.Sleep(200 * time.Millisecond)
			err = run(w, ts.Tid, ts.Scen, c)
		}
		if err != nil {
			w.Flush()
			return fmt.Errorf("scenario %d: %w", ts.Tid, err)
		}
		w.Flush()
		fmt.Fprintf(j, "E %d\n", ts.Tid)
		if atomic.LoadInt32(&retireFlag) != 0 && i+1 < len(lines) {
			// the scenario left library goroutines behind that go on acting (a reconnection loop that survives Stop):
			// this process is not a clean place for the next scenario; the master starts a fresh worker for the rest
			w.CloseNoEnd()
			fmt.Printf("RETIRE %d\n", ts.Tid)
			os.Exit(7)
		}
	}
	return w.CloseNoEnd()
}

var retireFlag int32

// requestRetire asks the worker to end after the current scenario (see runWorker).
func requestRetire() { atomic.StoreInt32(&retireFlag, 1) }

var retireRe = regexp.MustCompile(`(?m)^RETIRE (\d+)$`)

// runMaster distributes scenarios over worker subprocesses and merges their traces.
func runMaster(c *common, family string, scens []tidScen, extraArgs []string, perScenTimeout time.Duration) error {
	nw := c.workers
	if nw <= 0 {
		nw = runtime.NumCPU()
	}
	if nw > len(scens) {
		nw = len(scens)
	}
	if nw < 1 {
		nw = 1
	}
	dir := filepath.Dir(c.out)
	self, _ := os.Executable()
	type frag struct {
		first int
		path  string
	}
	var mu sync.Mutex
	var frags []frag
	crashes := map[int]string{}
	infra := []string{}
	var wg sync.WaitGroup
	chunks := make([][]tidScen, nw)
	for i, s := range scens {
		chunks[i%nw] = append(chunks[i%nw], s)
	}
	for wi := 0; wi < nw; wi++ {
		wg.Add(1)
		go func(wi int, todo []tidScen) {
			defer wg.Done()
			gen := 0
			for len(todo) > 0 {
				gen++
				base := filepath.Join(dir, fmt.Sprintf("w%s-%d-%d", filepath.Base(c.out), wi, gen))
				sf, tf, jf := base+".scen", base+".trace", base+".journal"
				f, _ := os.Create(sf)
				bw := bufio.NewWriter(f)
				for _, s := range todo {
					b, _ := json.Marshal(s)
					bw.Write(b)
					bw.WriteByte('\n')
				}
				bw.Flush()
				f.Close()
				args := append([]string{family, "-worker", "-scen", sf, "-out", tf, "-journal", jf, "-seed", strconv.FormatInt(c.seed, 10), "-tier", c.tier}, extraArgs...)
				cmd := exec.Command(self, args...)
				var outb strings.Builder
				cmd.Stdout, cmd.Stderr = &outb, &outb
				done := make(chan error, 1)
				if err := cmd.Start(); err != nil {
					mu.Lock()
					infra = append(infra, err.Error())
					mu.Unlock()
					return
				}
				go func() { done <- cmd.Wait() }()
				var werr error
				select {
				case werr = <-done:
				case <-time.After(perScenTimeout*time.Duration(len(todo)) + 30*time.Second):
					cmd.Process.Kill()
					werr = fmt.Errorf("worker timeout")
					<-done
				}
				mu.Lock()
				frags = append(frags, frag{todo[0].Tid, tf})
				mu.Unlock()
				for _, ln := range strings.Split(outb.String(), "\n") {
					if strings.HasPrefix(ln, "NOTE ") {
						fmt.Println(ln)
					}
				}
				if werr == nil {
					return
				}
				if m := retireRe.FindStringSubmatch(outb.String()); m != nil {
					// the worker retired itself after scenario m[1]: carry on with the rest in a fresh process
					t, _ := strconv.Atoi(m[1])
					idx := -1
					for i, s := range todo {
						if s.Tid == t {
							idx = i
						}
					}
					if idx >= 0 {
						todo = todo[idx+1:]
						continue
					}
				}
				// which scenario was running?
				began, ended := -1, map[int]bool{}
				if jb, err := os.ReadFile(jf); err == nil {
					for _, ln := range strings.Split(string(jb), "\n") {
						var k string
						var t int
						if n, _ := fmt.Sscanf(ln, "%s %d", &k, &t); n == 2 {
							if k == "B" {
								began = t
							} else {
								ended[t] = true
							}
						}
					}
				}
				out := outb.String()
				if began < 0 || ended[began] || strings.Contains(out, "driver error:") {
					mu.Lock()
					infra = append(infra, fmt.Sprintf("worker %d failed outside a scenario: %v\n%s", wi, werr, tail(out, 2000)))
					mu.Unlock()
					return
				}
				mu.Lock()
				crashes[began] = tail(out, 1500)
				mu.Unlock()
				// continue after the crashed scenario
				idx := -1
				for i, s := range todo {
					if s.Tid == began {
						idx = i
					}
				}
				todo = todo[idx+1:]
			}
		}(wi, chunks[wi])
	}
	wg.Wait()
	if len(infra) > 0 {
		return fmt.Errorf("%s", strings.Join(infra, "\n"))
	}
	// merge: fragments in any order (each scenario is self-contained between reset events)
	w, err := tr.Create(c.out)
	if err != nil {
		return err
	}
	sort.Slice(frags, func(i, j int) bool { return frags[i].first < frags[j].first })
	lastTid := -1
	for _, fr := range frags {
		lines, err := tr.ReadLines(fr.path)
		if err != nil {
			continue
		}
		for _, ln := range lines {
			// a crashed scenario's partial events are kept; the crash event follows them
			var probe struct {
				Ev  string `json:"ev"`
				Tid int    `json:"tid"`
			}
			json.Unmarshal(ln, &probe)
			if probe.Ev == "reset" {
				if msg, ok := crashes[lastTid]; ok {
					w.Emit(tr.Rec{"ev": "crash", "tid": lastTid, "msg": crashMsg(msg)})
					delete(crashes, lastTid)
				}
				lastTid = probe.Tid
			}
			w.Raw(ln)
		}
		if msg, ok := crashes[lastTid]; ok {
			w.Emit(tr.Rec{"ev": "crash", "tid": lastTid, "msg": crashMsg(msg)})
			delete(crashes, lastTid)
		}
		os.Remove(fr.path)
	}
	// crashed before emitting its reset event
	for tid, msg := range crashes {
		w.Emit(tr.Rec{"ev": "reset", "tid": tid, "sm": false, "mode": "lock", "bare": true})
		w.Emit(tr.Rec{"ev": "crash", "tid": tid, "msg": crashMsg(msg)})
	}
	fmt.Printf("SCENARIOS %d EVENTS %d\n", len(scens), w.N+1)
	return w.Close()
}

func crashMsg(out string) string {
	// first line of the panic, without addresses
	for _, ln := range strings.Split(out, "\n") {
		if strings.HasPrefix(ln, "panic:") || strings.HasPrefix(ln, "fatal error:") {
			return ln
		}
	}
	return "worker died"
}

func tail(s string, n int) string {
	if len(s) > n {
		return s[len(s)-n:]
	}
	return s
}
