package main

import (
	"crypto/tls"
	"encoding/json"
	"fmt"
	"net"
	"strconv"
	"strings"
	"sync"
	"sync/atomic"
	"time"

	xmpp "gosrc.io/xmpp"
	"gosrc.io/xmpp/stanza"
	"verif/harness/srv"
	"verif/harness/tr"
)

// Family "life": a Client supervised by a StreamManager against a server that loses
// connections, refuses attempts and fails negotiations (Lifecycle.tla; C13).

func init() { register("life", runLife) }

type lifeRound struct {
	Drop     string   `json:"drop"`     // abrupt | graceful | none (first connection)
	Attempts []string `json:"attempts"` // outcomes of successive connection attempts: refuse | reset | transient | auth | ok
	Resume   string   `json:"resume"`   // accept | refuse : what the server does with <resume/>
	// InPost: the loss of this round happens while the post-connect callback of the session that is lost is still running
	InPost bool `json:"inpost"`
}
type lifeScen struct {
	SM     bool        `json:"sm"`
	KaMs   int         `json:"ka"`
	Rounds []lifeRound `json:"rounds"`
	// StopInOutage: after the last round the server goes away for good and the application calls Stop()
	// while the reconnection loop is retrying
	StopInOutage bool `json:"stopinoutage,omitempty"`
	// Transport: "" = TCP, "ws" = WebSocket (ws://)
	Transport string `json:"transport,omitempty"`
	// TLS: every connection of the scenario negotiates STARTTLS first (required by the server, in-process CA)
	TLS bool `json:"tls,omitempty"`
}

// lifeLink is the server side of one connection (TCP stream or WebSocket)
type lifeLink interface {
	Expect(time.Duration) (*srv.Elem, error)
	ReadElem(time.Duration) (*srv.Elem, error)
	Write(string) error
	Close()
	Reset()
	RestartStream()
}

type lifeSrv struct {
	mu      sync.Mutex
	l       net.Listener
	addr    string
	w       *tr.Writer
	nconn   int32
	cur     lifeLink
	curN    int
	ws      bool
	tls     bool
	wss     *srv.WSServer
	pend    map[string][2]interface{} // WebSocket: (n, outcome) of an accepted TCP connection, by remote address
	// refuseNext = k > 0: the attempt after the next k accepted ones is to be refused: the listener is closed by the
	// accepting goroutine itself at the k-th accept, so that a client that retries within a millisecond cannot slip in
	refuseNext int32
	down       int32 // the listener is closed
	smid    string
	queue   []string // outcomes for the next attempts
	resume  string
	sm      bool
	upCh    chan int
	closing int32
	pings   map[int]int
}

func (s *lifeSrv) listen() error {
	var err error
	for i := 0; i < 50; i++ {
		s.l, err = net.Listen("tcp", s.addr)
		if err == nil {
			if s.ws {
				s.wss = srv.ServeWSOn(lifeGate{s.l, s}, nil)
			}
			return nil
		}
		time.Sleep(10 * time.Millisecond)
	}
	return err
}

func (s *lifeSrv) closeListener() {
	if s.ws && s.wss != nil {
		s.wss.Close() // closes the listener, not the hijacked (established) WebSocket connections
	}
	s.l.Close()
}

// lifeGate sees the TCP connections of the WebSocket endpoint first: the outcome of an attempt is decided (and a
// "reset" outcome played) before the HTTP upgrade.
type lifeGate struct {
	net.Listener
	s *lifeSrv
}

func (g lifeGate) Accept() (net.Conn, error) {
	for {
		c, err := g.Listener.Accept()
		if err != nil {
			return nil, err
		}
		s := g.s
		if atomic.LoadInt32(&s.refuseNext) > 0 && atomic.AddInt32(&s.refuseNext, -1) == 0 {
			atomic.StoreInt32(&s.down, 1)
			g.Listener.Close()
		}
		n := int(atomic.AddInt32(&s.nconn, 1))
		out := s.next()
		s.w.Emit(tr.Rec{"ev": "accept", "n": n, "outcome": out})
		if out == "reset" {
			s.w.Emit(tr.Rec{"ev": "neg", "n": n, "kind": "fail", "why": "reset"})
			if t, ok := c.(*net.TCPConn); ok {
				t.SetLinger(0)
			}
			c.Close()
			continue
		}
		s.mu.Lock()
		s.pend[c.RemoteAddr().String()] = [2]interface{}{n, out}
		s.mu.Unlock()
		return c, nil
	}
}

func (s *lifeSrv) acceptLoopWS(wss *srv.WSServer) {
	for {
		select {
		case <-wss.Done():
			return
		case wc := <-wss.Conns():
			n, out := 0, "unexpected"
			if wc.Raw != nil {
				s.mu.Lock()
				if p, ok := s.pend[wc.Raw.RemoteAddr().String()]; ok {
					n, out = p[0].(int), p[1].(string)
				}
				s.mu.Unlock()
			}
			go s.serve(newWSLink(wc), n, out)
		}
	}
}

func (s *lifeSrv) next() string {
	s.mu.Lock()
	defer s.mu.Unlock()
	if len(s.queue) == 0 {
		return "unexpected"
	}
	o := s.queue[0]
	s.queue = s.queue[1:]
	return o
}

func (s *lifeSrv) acceptLoop() {
	if s.ws {
		s.acceptLoopWS(s.wss)
		return
	}
	for {
		l := s.l
		c, err := l.Accept()
		if err != nil {
			return
		}
		if atomic.LoadInt32(&s.refuseNext) > 0 && atomic.AddInt32(&s.refuseNext, -1) == 0 {
			atomic.StoreInt32(&s.down, 1)
			l.Close()
		}
		n := int(atomic.AddInt32(&s.nconn, 1))
		out := s.next()
		s.w.Emit(tr.Rec{"ev": "accept", "n": n, "outcome": out})
		go s.serve(srv.NewConn(c), n, out)
	}
}

func (s *lifeSrv) serve(conn lifeLink, n int, out string) {
	w := s.w
	fail := func(why string) {
		w.Emit(tr.Rec{"ev": "neg", "n": n, "kind": "fail", "why": why})
	}
	switch out {
	case "reset":
		fail("reset")
		conn.Reset()
		return
	case "unexpected":
		// a connection the scenario does not account for: play a full session so that its effects are visible
	}
	exp := func() (*srv.Elem, bool) {
		e, err := conn.Expect(3 * time.Second)
		if err != nil {
			return nil, false
		}
		if e.Kind == "close" {
			conn.Write("</stream:stream>")
			return e, false
		}
		return e, true
	}
	if _, ok := exp(); !ok {
		fail("noopen")
		conn.Close()
		return
	}
	if s.tls {
		tc, isTCP := conn.(*srv.Conn)
		if !isTCP {
			fail("notcp")
			conn.Close()
			return
		}
		conn.Write(srv.StreamHeader("t"+strconv.Itoa(n)) + srv.Features(srv.FeatStartTLSR+srv.FeatMechPlain))
		if e, ok := exp(); !ok || e.Local != "starttls" {
			fail("nostarttls")
			conn.Close()
			return
		}
		conn.Write("<proceed xmlns='" + srv.NSTLS + "'/>")
		cert := srv.GetPKI().Certs["valid"]
		if out == "tlsalert" {
			tc.StartTLSDemandClientCert(cert, 3*time.Second) // fails: the server sends the alert
			fail("tlsalert")
			time.Sleep(20 * time.Millisecond)
			conn.Close()
			return
		}
		if err := tc.StartTLS(cert, 3*time.Second); err != nil {
			fail("tlshandshake")
			conn.Close()
			return
		}
		if _, ok := exp(); !ok {
			fail("noopen2")
			conn.Close()
			return
		}
	}
	conn.Write(srv.StreamHeader("s"+strconv.Itoa(n)) + srv.Features(srv.FeatMechPlain))
	if out == "transient" {
		// a failure that says nothing about the credentials: the stream is torn down during negotiation
		if _, ok := exp(); ok {
			conn.Write("<stream:error><system-shutdown xmlns='urn:ietf:params:xml:ns:xmpp-streams'/></stream:error></stream:stream>")
		}
		fail("transient")
		// answer the client's closing tag, then go away
		conn.Expect(1500 * time.Millisecond)
		conn.Close()
		return
	}
	if _, ok := exp(); !ok {
		fail("noauth")
		conn.Close()
		return
	}
	if out == "auth" || out == "authtext" {
		if out == "auth" {
			conn.Write("<failure xmlns='" + srv.NSSASL + "'><not-authorized/></failure>")
		} else {
			conn.Write("<failure xmlns='" + srv.NSSASL + "'><not-authorized/><text xml:lang='en'>Invalid username or password</text></failure>")
		}
		fail("auth")
		if e, err := conn.Expect(1500 * time.Millisecond); err == nil && e.Kind == "close" {
			conn.Write("</stream:stream>")
		}
		conn.Close()
		return
	}
	conn.RestartStream()
	conn.Write(srv.SASLSuccess)
	if _, ok := exp(); !ok {
		fail("noopen3")
		conn.Close()
		return
	}
	feats := srv.FeatBind
	if s.sm {
		feats += srv.FeatSM
	}
	conn.Write(srv.StreamHeader("s3-"+strconv.Itoa(n)) + srv.Features(feats))
	e, ok := exp()
	if !ok {
		fail("nobind")
		conn.Close()
		return
	}
	kind := "bind"
	if e.Local == "resume" {
		s.mu.Lock()
		acc := s.resume == "accept" && e.Attr["previd"] == s.smid && s.smid != ""
		s.mu.Unlock()
		w.Emit(tr.Rec{"ev": "resumereq", "n": n, "previd": e.Attr["previd"], "known": acc})
		if acc {
			conn.Write("<resumed xmlns='" + srv.NSSM + "' previd='" + e.Attr["previd"] + "' h='0'/>")
			kind = "resume"
			goto up
		}
		conn.Write("<failed xmlns='" + srv.NSSM + "'><item-not-found xmlns='urn:ietf:params:xml:ns:xmpp-stanzas'/></failed>")
		if e, ok = exp(); !ok {
			fail("nobind-after-failed")
			conn.Close()
			return
		}
	}
	if e.Local != "iq" {
		fail("nobind2")
		conn.Close()
		return
	}
	conn.Write("<iq type='result' id='" + e.Attr["id"] + "'><bind xmlns='" + srv.NSBind + "'><jid>test@localhost/r" + strconv.Itoa(n) + "</jid></bind></iq>")
	if s.sm {
		e, ok = exp()
		if ok && e.Local == "enable" {
			id := "sm-" + strconv.Itoa(n)
			s.mu.Lock()
			s.smid = id
			s.mu.Unlock()
			conn.Write("<enabled xmlns='" + srv.NSSM + "' id='" + id + "' resume='true'/>")
		} else if ok {
			// no enable: fine, the element is the first of the session
			s.sessionElem(conn, n, e)
		}
	}
up:
	s.mu.Lock()
	s.cur, s.curN = conn, n
	s.mu.Unlock()
	w.Emit(tr.Rec{"ev": "neg", "n": n, "kind": kind, "why": ""})
	w.Emit(tr.Rec{"ev": "up", "n": n})
	// the server talks to the client on the new session
	tag := "m" + strconv.Itoa(n)
	w.Emit(tr.Rec{"ev": "srvmsg", "n": n, "tag": tag})
	conn.Write("<message id='" + tag + "' from='peer@localhost/x' type='chat'><body>hello</body></message>")
	select {
	case s.upCh <- n:
	default:
	}
	for {
		e, err := conn.ReadElem(30 * time.Second)
		if err != nil {
			return
		}
		if e.Kind == "close" {
			conn.Write("</stream:stream>")
			return
		}
		s.sessionElem(conn, n, e)
	}
}

func (s *lifeSrv) sessionElem(conn lifeLink, n int, e *srv.Elem) {
	if e.Kind == "elem" && e.Local == "message" {
		s.w.Emit(tr.Rec{"ev": "clisend", "n": n, "tag": e.Attr["id"]})
	}
	if e.Kind == "ws" {
		s.mu.Lock()
		s.pings[n] += len(e.Raw) // several keepalive bytes can arrive in one read on a loaded machine
		s.mu.Unlock()
	}
}

func lifeRunOne(w *tr.Writer, tid int, raw json.RawMessage, c *common) error {
	var sc lifeScen
	if err := json.Unmarshal(raw, &sc); err != nil {
		return err
	}
	for _, rd := range sc.Rounds {
		for _, a := range rd.Attempts {
			if a == "tlsalert" {
				sc.TLS = true // that outcome needs STARTTLS on every connection of the scenario
			}
		}
	}
	if sc.TLS {
		sc.Transport = ""
	}
	run := &sessRun{cnt: map[string]int{}, w: w, tid: tid}
	run.cond = sync.NewCond(&run.mu)
	curRun.Store(run)
	defer curRun.Store(nil)
	before := libGoroutines()
	tp := "tcp"
	if sc.Transport == "ws" {
		tp = "ws"
	}
	w.Emit(tr.Rec{"ev": "reset", "tid": tid, "sm": sc.SM, "ka": sc.KaMs, "transport": tp})

	var l0 net.Listener
	var err error
	for i := 0; i < 120; i++ { // ephemeral ports can run out for a while (TIME_WAIT) when several checks run at once
		if l0, err = net.Listen("tcp", "127.0.0.1:0"); err == nil {
			break
		}
		time.Sleep(250 * time.Millisecond)
	}
	if err != nil {
		return fmt.Errorf("precondition: %v", err)
	}
	s := &lifeSrv{addr: l0.Addr().String(), w: w, sm: sc.SM, upCh: make(chan int, 16), l: l0, pings: map[int]int{},
		ws: sc.Transport == "ws", pend: map[string][2]interface{}{}, tls: sc.TLS}
	dialAddr := s.addr
	if s.ws {
		s.wss = srv.ServeWSOn(lifeGate{l0, s}, nil)
		dialAddr = "ws://" + s.addr + "/xmpp"
	}
	go s.acceptLoop()

	router := xmpp.NewRouter()
	router.NewRoute().HandlerFunc(func(sd xmpp.Sender, p stanza.Packet) {
		if m, ok := p.(stanza.Message); ok {
			w.Emit(tr.Rec{"ev": "hdl", "tag": m.Id})
		}
	})
	ka := time.Hour
	if sc.KaMs > 0 {
		ka = time.Duration(sc.KaMs) * time.Millisecond
	}
	cfg := &xmpp.Config{
		TransportConfiguration: xmpp.TransportConfiguration{Address: dialAddr, ConnectTimeout: 1, Domain: "localhost"},
		Jid:                    "test@localhost/res", Credential: xmpp.Password("secret"), Insecure: true,
		StreamManagementEnable: sc.SM, KeepaliveInterval: ka, ConnectTimeout: 1,
	}
	if sc.TLS {
		cfg.Insecure = false
		cfg.TLSConfig = &tls.Config{RootCAs: srv.GetPKI().Pool}
		cfg.TransportConfiguration.Domain = "localhost"
	}
	xmpp.VerifSetStreamManagementResume(cfg, true)
	client, err := xmpp.NewClient(cfg, router, func(e error) { w.Emit(tr.Rec{"ev": "errcb"}) })
	if err != nil {
		return fmt.Errorf("NewClient: %v", err)
	}
	var npost int32
	var holdPost int32                 // 1: the next post-connect callback does not return before it is released
	postGate := make(chan struct{}, 4) // releases a held callback
	releasePost := func() {
		select {
		case postGate <- struct{}{}:
		default:
		}
	}
	smgr := xmpp.NewStreamManager(client, func(sd xmpp.Sender) {
		k := int(atomic.AddInt32(&npost, 1))
		w.Emit(tr.Rec{"ev": "post", "k": k})
		// the application sends on the (new) connection
		sd.Send(stanza.Message{Attrs: stanza.Attrs{Id: "pc" + strconv.Itoa(k), To: "peer@localhost", Type: stanza.MessageTypeChat}, Body: "after connect"})
		if atomic.CompareAndSwapInt32(&holdPost, 1, 0) {
			// a slow application callback: the session is lost while it is still running
			select {
			case <-postGate:
			case <-time.After(5 * time.Second):
			}
		}
	})

	runRet := make(chan error, 1)
	stopped := false
	when := "up"
	runRead := false // Run's result has already been taken (first connect refused)
	finish := func() {
		// Stop must make Run return
		if !stopped {
			stopped = true
			w.Emit(tr.Rec{"ev": "stop"})
			done := make(chan struct{})
			go func() { smgr.Stop(); close(done) }()
			select {
			case <-done:
			case <-time.After(4 * time.Second):
				w.Emit(tr.Rec{"ev": "note", "stall": "Stop() did not return"})
			}
		}
		if !runRead {
			select {
			case err := <-runRet:
				w.Emit(tr.Rec{"ev": "runret", "err": err != nil, "timely": true, "when": when})
			case <-time.After(3 * time.Second):
				w.Emit(tr.Rec{"ev": "runret", "err": false, "timely": false, "when": when})
			}
		}
		releasePost()
		atomic.StoreInt32(&s.closing, 1)
		s.closeListener()
		s.mu.Lock()
		if s.cur != nil {
			s.cur.Close()
		}
		s.mu.Unlock()
		run.mu.Lock()
		cc := run.conn
		run.mu.Unlock()
		if cc != nil {
			srv.HardClose(cc)
		}
		time.Sleep(20 * time.Millisecond)
		left := leakedSince(before, 600*time.Millisecond)
		w.Emit(tr.Rec{"ev": "leak", "n": len(left), "where": strings.Join(left, " | ")})
		if len(left) > 0 || sc.StopInOutage {
			// Stop() does not end a reconnection loop that is under way: the client left behind keeps dialling its old
			// port for ever, and ports are reused by later scenarios (of any worker process)
			requestRetire()
		}
		w.Emit(tr.Rec{"ev": "fin"})
	}

	for ri, rd := range sc.Rounds {
		w.Emit(tr.Rec{"ev": "round", "i": ri + 1, "drop": rd.Drop, "attempts": rd.Attempts, "resume": rd.Resume, "inpost": rd.InPost})
		if ri+1 < len(sc.Rounds) && sc.Rounds[ri+1].InPost && sc.Rounds[ri+1].Drop != "restart" {
			for len(postGate) > 0 {
				<-postGate
			}
			atomic.StoreInt32(&holdPost, 1) // the callback of the session this round establishes is still running at the next loss
		}
		hasPerm := false
		for _, a := range rd.Attempts {
			if a == "auth" || a == "authtext" || a == "tlsalert" {
				hasPerm = true
			}
		}
		s.mu.Lock()
		s.queue = nil
		s.resume = rd.Resume
		prev, prevN := s.cur, s.curN
		s.mu.Unlock()
		closeL := func() {
			s.closeListener() // idempotent; the accepting goroutine may have closed it already (refuseNext)
			atomic.StoreInt32(&s.down, 1)
		}
		openL := func() error {
			if atomic.LoadInt32(&s.down) == 1 {
				s.closeListener()
				if err := s.listen(); err != nil {
					return fmt.Errorf("precondition: cannot re-open the listener: %v", err)
				}
				atomic.StoreInt32(&s.down, 0)
				go s.acceptLoop()
			}
			return nil
		}
		trigger := func() {
			if ri == 0 {
				go func() { runRet <- smgr.Run() }()
				w.Emit(tr.Rec{"ev": "run"})
				return
			}
			if rd.Drop == "restart" {
				// Stop, then Run again: a manager (and its client) can be started again once it has stopped
				exit0 := run.get("recv.exit")
				w.Emit(tr.Rec{"ev": "stop"})
				done := make(chan struct{})
				go func() { smgr.Stop(); close(done) }()
				select {
				case <-done:
				case <-time.After(4 * time.Second):
					w.Emit(tr.Rec{"ev": "note", "stall": "Stop() did not return"})
				}
				select {
				case err := <-runRet:
					w.Emit(tr.Rec{"ev": "runret", "err": err != nil, "timely": true, "when": "restart"})
				case <-time.After(3 * time.Second):
					w.Emit(tr.Rec{"ev": "runret", "err": false, "timely": false, "when": "restart"})
				}
				// the old session has ended for the client too (it has seen the end of the stream)
				run.waitFor(2*time.Second, func(c map[string]int) bool { return c["recv.exit"] > exit0 })
				time.Sleep(20 * time.Millisecond)
				go func() { runRet <- smgr.Run() }()
				w.Emit(tr.Rec{"ev": "run"})
				return
			}
			w.Emit(tr.Rec{"ev": "drop", "n": prevN, "how": rd.Drop})
			if rd.Drop == "graceful" {
				prev.Write("</stream:stream>")
				// a server that ends the stream closes the connection shortly after
				go func(c lifeLink) { time.Sleep(100 * time.Millisecond); c.Close() }(prev)
			} else {
				prev.Reset()
			}
		}
		up := false
		stuck := false
		blockBase, blockStart := 0, 0 // attempts counted when the current run of imposed outcomes began / its first index
		for ai, a := range rd.Attempts {
			att0 := run.get("sm.attempt")
			if a == "refuse" {
				closeL()
			} else {
				if err := openL(); err != nil {
					return err
				}
				if ai == 0 || rd.Attempts[ai-1] == "refuse" {
					// the outcomes of the whole run of attempts up to the next refusal are imposed at once: the client
					// retries within a millisecond of a failure, faster than this loop can follow
					blockBase, blockStart = att0, ai
					j := ai
					for j < len(rd.Attempts) && rd.Attempts[j] != "refuse" {
						j++
					}
					s.mu.Lock()
					s.queue = append(s.queue, rd.Attempts[ai:j]...)
					s.mu.Unlock()
					if j < len(rd.Attempts) {
						atomic.StoreInt32(&s.refuseNext, int32(j-ai))
					}
				}
			}
			if ai == 0 {
				trigger()
			}
			if a == "ok" {
				select {
				case <-s.upCh:
					up = true
				case <-time.After(4 * time.Second):
					stuck = true
				}
				break
			}
			if ri == 0 {
				// the very first Connect fails: Run returns an error, there is no session to re-establish
				select {
				case err := <-runRet:
					w.Emit(tr.Rec{"ev": "runret", "err": err != nil, "timely": true, "when": "first-connect-refused"})
				case <-time.After(3 * time.Second):
					w.Emit(tr.Rec{"ev": "runret", "err": false, "timely": false, "when": "first-connect-refused"})
				}
				openL()
				stopped = true
				runRead = true
				w.Emit(tr.Rec{"ev": "quietround", "i": ri + 1, "up": false, "refusedfirst": true})
				finish()
				return nil
			}
			// the attempt must be made and fail
			want := att0 + 1
			if a != "refuse" {
				want = blockBase + (ai - blockStart) + 1 // the client may be ahead of this loop
			}
			ok := run.waitFor(4*time.Second, func(c map[string]int) bool { return c["sm.attempt"] >= want })
			if a == "refuse" {
				w.Emit(tr.Rec{"ev": "refused", "want": 1, "got": run.get("sm.attempt") - att0, "timely": ok})
			}
			if !ok {
				stuck = true
				break
			}
			if a == "auth" || a == "authtext" || a == "tlsalert" {
				break
			}
		}
		if err := openL(); err != nil {
			return err
		}
		_ = stuck
		if rd.InPost {
			releasePost() // the slow callback of the lost session returns at last
		}
		if up {
			// the server's message is handled and the application's message arrives
			dl := time.Now().Add(2 * time.Second)
			for time.Now().Before(dl) {
				time.Sleep(2 * time.Millisecond)
				if int(atomic.LoadInt32(&npost)) >= ri+1 && run.get("route.end") >= ri+1 {
					break
				}
			}
			time.Sleep(30 * time.Millisecond)
			if sc.KaMs > 0 {
				// the keepalive of THIS session: whitespace must arrive on the new connection at the interval
				s.mu.Lock()
				n0, p0 := s.curN, s.pings[s.curN]
				s.mu.Unlock()
				win := 20 * sc.KaMs
				time.Sleep(time.Duration(win) * time.Millisecond)
				s.mu.Lock()
				p1 := s.pings[n0]
				s.mu.Unlock()
				w.Emit(tr.Rec{"ev": "kaobs", "n": n0, "window": win, "iv": sc.KaMs, "pings": p1 - p0})
			}
		}
		// let stray activity (extra connections, duplicate callbacks) show up
		time.Sleep(150 * time.Millisecond)
		if hasPerm {
			time.Sleep(400 * time.Millisecond)
		}
		w.Emit(tr.Rec{"ev": "quietround", "i": ri + 1, "up": up, "refusedfirst": false})
		if hasPerm || !up {
			break
		}
	}
	if sc.StopInOutage && !stopped {
		w.Emit(tr.Rec{"ev": "round", "i": len(sc.Rounds) + 1, "drop": "abrupt", "attempts": []string{"refuse", "refuse"}, "resume": "accept", "inpost": false})
		att0 := run.get("sm.attempt")
		s.closeListener()
		s.mu.Lock()
		prev, prevN := s.cur, s.curN
		s.mu.Unlock()
		w.Emit(tr.Rec{"ev": "drop", "n": prevN, "how": "abrupt"})
		prev.Reset()
		ok := run.waitFor(4*time.Second, func(c map[string]int) bool { return c["sm.attempt"] >= att0+2 })
		w.Emit(tr.Rec{"ev": "refused", "want": 2, "got": run.get("sm.attempt") - att0, "timely": ok})
		w.Emit(tr.Rec{"ev": "stopinoutage"})
		when = "outage"
		s.listen() // so that finish() can close it; nothing connects any more
	}
	finish()
	return nil
}

func runLife(args []string) error {
	c, fs := parseCommon("life", args)
	kaOnly := fs.Bool("kaonly", false, "run only the keepalive variant of each scenario (C18)")
	fs.Parse(args)
	if c.worker {
		return runWorker(c, lifeRunOne, func() error { sessInstallHooks(); return nil })
	}
	lines, err := c.loadScen()
	if err != nil {
		return err
	}
	var scens []tidScen
	tid := 0
	for i, ln := range lines {
		tid++
		if !*kaOnly {
			scens = append(scens, tidScen{tid, ln})
		}
		if i%4 == 1 && !*kaOnly {
			// the same behaviour over the WebSocket transport
			var sc lifeScen
			if json.Unmarshal(ln, &sc) == nil {
				sc.Transport = "ws"
				b, _ := json.Marshal(sc)
				tid++
				scens = append(scens, tidScen{2000000 + tid, b})
			}
		}
		if i%9 == 0 || *kaOnly {
			var sc lifeScen
			if json.Unmarshal(ln, &sc) == nil {
				ok := true
				for _, rd := range sc.Rounds {
					for _, a := range rd.Attempts {
						if a == "auth" || a == "authtext" || a == "tlsalert" {
							ok = false
						}
					}
				}
				if ok {
					v := sc
					v.KaMs = 15 // every session has its own keepalive at the interval
					b, _ := json.Marshal(v)
					tid++
					scens = append(scens, tidScen{1000000 + tid, b})
					if !*kaOnly {
						v = sc
						v.StopInOutage = true
						b, _ = json.Marshal(v)
						tid++
						scens = append(scens, tidScen{1000000 + tid, b})
					}
				}
			}
		}
	}
	for _, s := range scens {
		c.recordScen(s.Tid, s.Scen)
	}
	c.closeScen()
	return runMaster(c, "life", scens, nil, 60*time.Second)
}
