package main

import (
	"os"
	"crypto/tls"
	"encoding/base64"
	"encoding/json"
	"fmt"
	"math/rand"
	"strconv"
	"strings"
	"sync"
	"sync/atomic"
	"time"

	xmpp "gosrc.io/xmpp"
	"gosrc.io/xmpp/stanza"
	"errors"
	"verif/harness/srv"
	"verif/harness/tr"
)

// Family "neg": session negotiation over one or several connections of ONE client object
// (Negotiation.tla; C03 C04 C11 C14). A scenario is a client configuration plus, per
// connection, the server's reply at every stage the client reaches.

func init() { register("neg", runNeg) }

type negCfg struct {
	Insecure bool   `json:"insecure"`
	SM       bool   `json:"sm"`
	TLS      string `json:"tls"`
	Cred     string `json:"cred"`
	WS       bool   `json:"ws"`
	WSS      bool   `json:"wss"`
	SkipTLS  bool   `json:"skiptls"`
	SessAlw  bool   `json:"sessalways"`
}
type negReply struct {
	Stage string   `json:"stage"`
	V     string   `json:"v"`
	Mechs []string `json:"mechs"`
}
type negConn struct {
	Op      string     `json:"op"` // connect | resume
	Replies []negReply `json:"replies"`
	Nst     int        `json:"nst"` // stanzas the server delivers once the session is up
}
type negScen struct {
	Cfg    negCfg    `json:"cfg"`
	Conns  []negConn `json:"conns"`
	User   string    `json:"user,omitempty"`
	// Lenient: once the script is exhausted the server keeps answering further negotiation requests with
	// success replies, as a real (or hostile) server would: does a confused client leak credentials? (C04)
	Lenient bool `json:"lenient,omitempty"`
	Secret string    `json:"secret,omitempty"`
	// FailCond: the condition inside <failed/> for the reply variant "failedcond"
	FailCond string `json:"failcond,omitempty"`
	// Logger: the client is configured with a stream logger (what is written passes through it)
	Logger bool `json:"logger,omitempty"`
}

// every condition the library's <failed/> parser knows, plus the XEP-0198 ones and one it does not know
var negFailConds = []string{"item-not-found", "feature-not-implemented", "internal-server-error", "resource-constraint", "system-shutdown",
	"connection-timeout", "unexpected-request", "bad-format", "bad-namespace-prefix", "conflict", "host-gone", "host-unknown",
	"improper-addressing", "invalid-from", "invalid-id", "invalid-namespace", "invalid-xml", "not-authorized", "not-well-formed",
	"policy-violation", "remote-connection-failed", "restricted-xml", "see-other-host", "undefined-condition", "unsupported-encoding",
	"unsupported-stanza-type", "unsupported-version", "xml-not-well-formed", "service-unavailable"}

func bytesOf(s string) []int {
	out := make([]int, 0, len(s))
	for _, b := range []byte(s) {
		out = append(out, int(b))
	}
	return out
}

func negFeatures(v string, mechs []string) string {
	m := "<mechanisms xmlns='" + srv.NSSASL + "'>"
	for _, x := range mechs {
		m += "<mechanism>" + x + "</mechanism>"
	}
	m += "</mechanisms>"
	switch v {
	case "tls":
		return srv.Features(srv.FeatStartTLS + m)
	case "tlsreq":
		return srv.Features(srv.FeatStartTLSR + m)
	case "notls", "mech":
		return srv.Features(m)
	case "b":
		return srv.Features(srv.FeatBind)
	case "bs":
		return srv.Features(srv.FeatBind + srv.FeatSession)
	case "bo":
		return srv.Features(srv.FeatBind + srv.FeatSessionO)
	case "bm":
		return srv.Features(srv.FeatBind + srv.FeatSM)
	case "bsm":
		return srv.Features(srv.FeatBind + srv.FeatSession + srv.FeatSM)
	case "bom":
		return srv.Features(srv.FeatBind + srv.FeatSessionO + srv.FeatSM)
	case "bad":
		return "<stream:features><mechanisms xmlns='" + srv.NSSASL + "'><mechanism>PLAIN</mechanisms></stream:features>"
	case "other":
		return "<message xmlns='jabber:client'><body>not features</body></message>"
	}
	panic("features variant " + v)
}

// what the client element is, for the trace
func negCliRec(e *srv.Elem) tr.Rec {
	rec := tr.Rec{"ev": "cliel", "k": "other", "enc": e.Enc, "mech": "", "payload": []int{}, "previd": "", "h": -1, "resattr": false, "x": ""}
	switch {
	case e.Kind == "open":
		rec["k"] = "open"
	case e.Kind == "close":
		rec["k"] = "close"
	case e.Kind != "elem":
		rec["k"] = e.Kind
	case e.Local == "starttls" && e.Space == srv.NSTLS:
		rec["k"] = "starttls"
	case e.Local == "auth" && e.Space == srv.NSSASL:
		rec["k"] = "auth"
		rec["mech"] = e.Attr["mechanism"]
		dec, err := base64.StdEncoding.DecodeString(e.Text)
		if err != nil {
			rec["payload"] = []int{-1}
		} else {
			rec["payload"] = bytesOf(string(dec))
		}
	case e.Local == "resume" && e.Space == srv.NSSM:
		rec["k"] = "resume"
		_, has := e.Attr["previd"]
		rec["previd"] = e.Attr["previd"]
		rec["resattr"] = has
		if h, err := strconv.Atoi(e.Attr["h"]); err == nil && h < 2000000000 {
			rec["h"] = h
		}
	case e.Local == "enable" && e.Space == srv.NSSM:
		rec["k"] = "enable"
	case e.Local == "iq":
		rec["k"] = "iq"
		for _, c := range e.Children {
			if c == srv.NSBind+" bind" {
				rec["k"] = "bind"
			}
			if c == srv.NSSess+" session" {
				rec["k"] = "session"
			}
		}
	case e.Local == "presence":
		rec["k"] = "presence"
	case e.Local == "message":
		rec["k"] = "message"
	case e.Local == "a" && e.Space == srv.NSSM:
		rec["k"] = "a"
	case e.Local == "r" && e.Space == srv.NSSM:
		rec["k"] = "r"
	default:
		x := string(e.Raw)
		if len(x) > 80 {
			x = x[:80]
		}
		rec["x"] = x
	}
	return rec
}

// the element the client is expected to write before the server gives the reply of a stage
var negExpect = map[string]string{"open1": "open", "tlsr": "starttls", "open2": "open", "authr": "auth", "open3": "open",
	"resr": "resume", "bindr": "bind", "sessr": "session", "enr": "enable"}

func isSessionIQ(e *srv.Elem) bool {
	if e.Kind != "elem" || e.Local != "iq" {
		return false
	}
	for _, c := range e.Children {
		if c == srv.NSSess+" session" {
			return true
		}
	}
	return false
}

// negServe plays one connection's script. It returns when the script is exhausted and the
// client stopped talking, or the connection ended.
// negLink is the server side of one connection: a TCP stream or a WebSocket
type negLink interface {
	ReadElem(time.Duration) (*srv.Elem, error)
	Write(string) error
	Close()
	StartTLS(tls.Certificate, time.Duration) error
	RestartStream()
}

// A read whose context expires closes a nhooyr WebSocket connection: the link reads in a goroutine of its own and
// ReadElem only waits on its channel, so that a timeout leaves the connection alone.
type wsLink struct {
	c  *srv.WSConn
	ch chan wsRead
}
type wsRead struct {
	e   *srv.Elem
	err error
}

func newWSLink(c *srv.WSConn) wsLink {
	l := wsLink{c: c, ch: make(chan wsRead, 64)}
	go func() {
		for {
			e, err := c.ReadElem(time.Hour)
			l.ch <- wsRead{e, err}
			if err != nil {
				return
			}
		}
	}()
	return l
}

func (l wsLink) ReadElem(d time.Duration) (*srv.Elem, error) {
	select {
	case r := <-l.ch:
		return r.e, r.err
	case <-time.After(d):
		return nil, srv.ErrTimeout
	}
}
func (l wsLink) Write(s string) error {
	for _, f := range srv.WSFrames(s) {
		if err := l.c.Write(f); err != nil {
			return err
		}
	}
	return nil
}
func (l wsLink) Close()                                        { l.c.Close() }
func (l wsLink) Reset()                                        { l.c.Reset() }
func (l wsLink) Expect(d time.Duration) (*srv.Elem, error) {
	dl := time.Now().Add(d)
	for {
		e, err := l.ReadElem(time.Until(dl))
		if err != nil || e.Kind != "ws" {
			return e, err
		}
	}
}
func (l wsLink) StartTLS(tls.Certificate, time.Duration) error { return errors.New("no STARTTLS over WebSocket") }
func (l wsLink) RestartStream()                                {}

type delayedCloser struct{ negLink }

func (d delayedCloser) Close() {
	time.Sleep(40 * time.Millisecond)
	d.negLink.Close()
}

func negServe(w *tr.Writer, conn negLink, sc negConn, n int, opDone <-chan struct{}, sessUp *int32, handled *int32, lenient bool, failCond string) {
	authed := false
	var pending *srv.Elem // an element read but not yet answered
	pkiv := srv.GetPKI()
	lastID := ""
	readOne := func(timeout time.Duration) (*srv.Elem, error) {
		for {
			e, err := conn.ReadElem(timeout)
			if err != nil {
				return nil, err
			}
			if e.Kind == "ws" || e.Kind == "pi" {
				continue
			}
			w.Emit(negCliRec(e))
			if e.Kind == "elem" && e.Local == "iq" {
				lastID = e.Attr["id"]
			}
			return e, nil
		}
	}
	closed := false
	if _, isWS := conn.(wsLink); isWS {
		// a drop "in reply to" a request: let the client finish writing that request first. Over WebSocket a drop that
		// races with the end of the client's write is reported to the client as a failed WRITE (although the frame
		// left), which is a different situation from a request that was written and never answered.
		inner := conn
		conn = delayedCloser{inner}
	}
	for _, r := range sc.Replies {
		if r.Stage == "cert" {
			w.Emit(tr.Rec{"ev": "srvrep", "stage": r.Stage, "v": r.V, "mechs": []string{}})
			if r.V == "nottls" {
				conn.Write("this is not a TLS server hello\n")
				time.Sleep(20 * time.Millisecond)
				conn.Close()
				closed = true
				break
			}
			if err := conn.StartTLS(pkiv.Certs[r.V], 3*time.Second); err != nil {
				// the client refused the certificate (or broke the handshake)
				w.Emit(tr.Rec{"ev": "tls", "ok": false})
				break
			}
			w.Emit(tr.Rec{"ev": "tls", "ok": true})
			continue
		}
		e, err := readOne(2 * time.Second)
		if err != nil {
			break
		}
		if e.Kind == "close" {
			conn.Write("</stream:stream>")
			closed = true
			break
		}
		if isSessionIQ(e) && r.Stage != "sessr" {
			// a session request although the session feature was optional (or not the scripted step): a real
			// server answers it; whether the request is allowed is the monitor's business
			w.Emit(tr.Rec{"ev": "srvrep", "stage": "sessr", "v": "result", "mechs": []string{}})
			conn.Write("<iq type='result' id='" + lastID + "'/>")
			e, err = readOne(2 * time.Second)
			if err != nil {
				break
			}
			if e.Kind == "close" {
				conn.Write("</stream:stream>")
				closed = true
				break
			}
		}
		if k, _ := negCliRec(e)["k"].(string); k != negExpect[r.Stage] {
			// not the request this stage answers: the client diverged from the script
			pending = e
			break
		}
		if r.Mechs == nil {
			r.Mechs = []string{}
		}
		w.Emit(tr.Rec{"ev": "srvrep", "stage": r.Stage, "v": r.V, "mechs": r.Mechs})
		out := ""
		switch r.Stage {
		case "open1", "open2":
			if r.V == "close" {
				conn.Close()
				closed = true
			} else {
				out = srv.StreamHeader("sid-"+strconv.Itoa(n)) + negFeatures(r.V, r.Mechs)
			}
		case "open3":
			if r.V == "close" {
				conn.Close()
				closed = true
			} else {
				out = srv.StreamHeader("sid3-"+strconv.Itoa(n)) + negFeatures(r.V, nil)
			}
		case "tlsr":
			switch r.V {
			case "proceed":
				out = "<proceed xmlns='" + srv.NSTLS + "'/>"
			case "failure":
				out = "<failure xmlns='" + srv.NSTLS + "'/>"
			case "other":
				out = "<success xmlns='" + srv.NSSASL + "'/>"
			case "garbage":
				out = "<<<%%% not xml"
			case "close":
				conn.Close()
				closed = true
			}
		case "authr":
			switch r.V {
			case "success":
				out = srv.SASLSuccess
				authed = true
				conn.RestartStream()
			case "successdata":
				out = "<success xmlns='" + srv.NSSASL + "'>dj1hYmM9</success>"
				conn.RestartStream()
			case "failure":
				out = "<failure xmlns='" + srv.NSSASL + "'><not-authorized/></failure>"
			case "failuretext":
				out = "<failure xmlns='" + srv.NSSASL + "'><not-authorized/><text xml:lang='en'>bad password</text></failure>"
			case "other":
				out = "<proceed xmlns='" + srv.NSTLS + "'/>"
			case "stanza":
				// well-formed, known to the parser, but not an answer to <auth/>
				out = "<message from='localhost' type='headline'><body>maintenance tonight</body></message>"
			case "features":
				out = negFeatures("notls", []string{"PLAIN", "X-OAUTH2"})
			case "smnonza":
				out = "<enabled xmlns='" + srv.NSSM + "' id='x' resume='true'/>"
			case "garbage":
				out = "<success xmlns='" + srv.NSSASL + "'"
				conn.Write(out)
				out = ""
				conn.Close()
				closed = true
			case "close":
				conn.Close()
				closed = true
			}
		case "resr":
			switch r.V {
			case "resumed":
				out = "<resumed xmlns='" + srv.NSSM + "' previd='" + e.Attr["previd"] + "' h='0'/>"
			case "resumedother":
				out = "<resumed xmlns='" + srv.NSSM + "' previd='some-other-id' h='0'/>"
			case "failed":
				out = "<failed xmlns='" + srv.NSSM + "'/>"
			case "failedcond":
				cnd := failCond
				if cnd == "" {
					cnd = "internal-server-error"
				}
				out = "<failed xmlns='" + srv.NSSM + "' h='0'><" + cnd + " xmlns='urn:ietf:params:xml:ns:xmpp-stanzas'/><text xmlns='urn:ietf:params:xml:ns:xmpp-stanzas'>try later</text></failed>"
			case "faileditem":
				out = "<failed xmlns='" + srv.NSSM + "' h='0'><item-not-found xmlns='urn:ietf:params:xml:ns:xmpp-stanzas'/></failed>"
			case "other":
				out = "<enabled xmlns='" + srv.NSSM + "' id='zzz'/>"
			case "unknownel":
				out = "<bogus xmlns='urn:example:unexpected'/>"
			case "close":
				conn.Close()
				closed = true
			case "reset":
				// the connection is reset (RST) instead of being closed: the client sees an operation error, not an EOF
				time.Sleep(20 * time.Millisecond)
				if rc, ok := conn.(interface{ Reset() }); ok {
					rc.Reset()
				} else {
					conn.Close()
				}
				closed = true
			}
		case "bindr":
			switch r.V {
			case "result":
				out = "<iq type='result' id='" + lastID + "'><bind xmlns='" + srv.NSBind + "'><jid>user@localhost/bound" + strconv.Itoa(n) + "</jid></bind></iq>"
			case "error":
				out = "<iq type='error' id='" + lastID + "'><error type='cancel'><conflict xmlns='urn:ietf:params:xml:ns:xmpp-stanzas'/></error></iq>"
			case "errorecho":
				out = "<iq type='error' id='" + lastID + "'><bind xmlns='" + srv.NSBind + "'><resource>res</resource></bind><error type='modify'><bad-request xmlns='urn:ietf:params:xml:ns:xmpp-stanzas'/></error></iq>"
			case "resultempty":
				out = "<iq type='result' id='" + lastID + "'/>"
			case "resultother":
				out = "<iq type='result' id='" + lastID + "'><query xmlns='jabber:iq:roster'/></iq>"
			case "other":
				out = "<message><body>no bind for you</body></message>"
			case "close":
				conn.Close()
				closed = true
			}
		case "sessr":
			switch r.V {
			case "result":
				out = "<iq type='result' id='" + lastID + "'/>"
			case "error":
				out = "<iq type='error' id='" + lastID + "'><session xmlns='" + srv.NSSess + "'/><error type='wait'><internal-server-error xmlns='urn:ietf:params:xml:ns:xmpp-stanzas'/></error></iq>"
			case "close":
				conn.Close()
				closed = true
			}
		case "enr":
			switch r.V {
			case "enabled":
				out = "<enabled xmlns='" + srv.NSSM + "' id='id" + strconv.Itoa(n) + "' resume='true'/>"
			case "enablednoresume":
				out = "<enabled xmlns='" + srv.NSSM + "'/>"
			case "failed":
				out = "<failed xmlns='" + srv.NSSM + "'><unexpected-request xmlns='urn:ietf:params:xml:ns:xmpp-streams'/></failed>"
			case "failedbare":
				out = "<failed xmlns='" + srv.NSSM + "'/>"
			case "other":
				out = "<resumed xmlns='" + srv.NSSM + "' previd='x' h='0'/>"
			case "close":
				conn.Close()
				closed = true
			}
		}
		if out != "" {
			conn.Write(out)
		}
		if closed {
			break
		}
	}
	if closed {
		return
	}
	// the script is over: keep reading (a presence after success, a stream close after a failure)
	for {
		// short reads: as soon as the attempt has returned (opDone) the wait is over
		timeout := 60 * time.Millisecond
		var e *srv.Elem
		var err error
		if pending != nil {
			e, pending = pending, nil
		} else {
			e, err = readOne(timeout)
		}
		if err != nil {
			if err == srv.ErrTimeout {
				select {
				case <-opDone:
					if atomic.LoadInt32(sessUp) == 1 {
						goto session
					}
					return
				default:
					continue
				}
			}
			return
		}
		if e.Kind == "close" {
			conn.Write("</stream:stream>")
			return
		}
		if isSessionIQ(e) {
			w.Emit(tr.Rec{"ev": "srvrep", "stage": "sessr", "v": "result", "mechs": []string{}})
			conn.Write("<iq type='result' id='" + lastID + "'/>")
			continue
		}
		if k := negCliRec(e)["k"]; k != "presence" && k != "message" && k != "a" && k != "r" {
			if !lenient {
				// the script has no further reply: the server ends the stream rather than staying silent
				conn.Close()
				return
			}
			rep := func(stage, v, out string) {
				w.Emit(tr.Rec{"ev": "srvrep", "stage": stage, "v": v, "mechs": []string{}, "lenient": true})
				conn.Write(out)
			}
			switch k {
			case "open":
				if authed {
					rep("open3", "b", srv.StreamHeader("sidL")+negFeatures("b", nil))
				} else {
					rep("open1", "notls", srv.StreamHeader("sidL")+negFeatures("notls", []string{"PLAIN", "X-OAUTH2"}))
				}
			case "starttls":
				rep("tlsr", "proceed", "<proceed xmlns='"+srv.NSTLS+"'/>")
				if err := conn.StartTLS(pkiv.Certs["valid"], 3*time.Second); err != nil {
					return
				}
			case "auth":
				authed = true
				conn.RestartStream()
				rep("authr", "success", srv.SASLSuccess)
			case "resume":
				rep("resr", "failed", "<failed xmlns='"+srv.NSSM+"'/>")
			case "bind":
				rep("bindr", "result", "<iq type='result' id='"+lastID+"'><bind xmlns='"+srv.NSBind+"'><jid>user@localhost/lenient</jid></bind></iq>")
			case "enable":
				rep("enr", "enabled", "<enabled xmlns='"+srv.NSSM+"' id='idL' resume='true'/>")
			default:
				conn.Close()
				return
			}
			continue
		}
		select {
		case <-opDone:
			if atomic.LoadInt32(sessUp) == 1 {
				goto session
			}
		default:
		}
	}
session:
	// established: deliver stanzas, then lose the connection
	for i := 1; i <= sc.Nst; i++ {
		conn.Write("<message id='n" + strconv.Itoa(n) + "-" + strconv.Itoa(i) + "' from='peer@localhost/x' type='chat'><body>hi</body></message>")
	}
	deadline := time.Now().Add(2 * time.Second)
	for int(atomic.LoadInt32(handled)) < sc.Nst && time.Now().Before(deadline) {
		time.Sleep(time.Millisecond)
	}
}

func negRunOne(w *tr.Writer, tid int, raw json.RawMessage, c *common) error {
	var sc negScen
	if err := json.Unmarshal(raw, &sc); err != nil {
		return err
	}
	if sc.User == "" {
		sc.User = "user"
	}
	if sc.Secret == "" {
		sc.Secret = "secret"
	}
	run := &sessRun{cnt: map[string]int{}, w: w, tid: tid}
	run.cond = sync.NewCond(&run.mu)
	curRun.Store(run)
	defer curRun.Store(nil)
	w.Emit(tr.Rec{"ev": "reset", "tid": tid, "cfg": sc.Cfg, "user": bytesOf(sc.User), "secret": bytesOf(sc.Secret)})

	var accept func(time.Duration) (negLink, error)
	var addr string
	var wsCert atomic.Value // name of the certificate the wss: listener presents to the next handshake
	wsCert.Store("valid")
	if sc.Cfg.WS {
		var wss *srv.WSServer
		var err error
		if sc.Cfg.WSS {
			wss, err = srv.ListenWSS(func() *tls.Certificate {
				if c, ok := srv.GetPKI().Certs[wsCert.Load().(string)]; ok {
					return &c
				}
				return nil
			})
		} else {
			wss, err = srv.ListenWS()
		}
		if err != nil {
			return err
		}
		defer wss.Close()
		addr = wss.Addr
		accept = func(d time.Duration) (negLink, error) {
			c, err := wss.Accept(d)
			if err != nil {
				return nil, err
			}
			return newWSLink(c), nil
		}
	} else {
		server, err := srv.Listen()
		if err != nil {
			return err
		}
		defer server.Close()
		addr = server.Addr
		accept = func(d time.Duration) (negLink, error) {
			c, err := server.Accept(d)
			if err != nil {
				return nil, err
			}
			return c, nil
		}
	}
	var handled int32
	router := xmpp.NewRouter()
	router.NewRoute().HandlerFunc(func(s xmpp.Sender, p stanza.Packet) {
		if m, ok := p.(stanza.Message); ok && strings.HasPrefix(m.Id, "n") {
			atomic.AddInt32(&handled, 1)
			w.Emit(tr.Rec{"ev": "hdl", "tag": m.Id})
		}
	})
	cfg := &xmpp.Config{
		TransportConfiguration: xmpp.TransportConfiguration{Address: addr, ConnectTimeout: 1, Domain: "localhost"},
		Jid:                    sc.User + "@localhost/res",
		Insecure:               sc.Cfg.Insecure,
		StreamManagementEnable: sc.Cfg.SM,
		KeepaliveInterval:      time.Hour,
		ConnectTimeout:         1,
	}
	if sc.Cfg.Cred == "token" {
		cfg.Credential = xmpp.OAuthToken(sc.Secret)
	} else {
		cfg.Credential = xmpp.Password(sc.Secret)
	}
	pool := srv.GetPKI().Pool
	switch sc.Cfg.TLS {
	case "ca":
		cfg.TLSConfig = &tls.Config{RootCAs: pool}
	case "casn":
		cfg.TLSConfig = &tls.Config{RootCAs: pool, ServerName: "localhost"}
	case "caother":
		cfg.TLSConfig = &tls.Config{RootCAs: pool, ServerName: "other.example"}
	case "cahost":
		// the server is reached through a host name of its own ("localhost", as from an SRV record or an explicit
		// address) that is not the XMPP domain; the certificates of the scripted server name that host or other.example
		cfg.TLSConfig = &tls.Config{RootCAs: pool}
		cfg.TransportConfiguration.Address = strings.Replace(addr, "127.0.0.1", "localhost", 1)
		cfg.TransportConfiguration.Domain = "xmpp.example"
		cfg.Jid = sc.User + "@xmpp.example/res"
	case "skip":
		cfg.TLSConfig = &tls.Config{InsecureSkipVerify: true}
	}
	if sc.Logger {
		if f, err := os.CreateTemp("", "verif-streamlog-*"); err == nil {
			defer os.Remove(f.Name())
			defer f.Close()
			cfg.StreamLogger = f
		}
	}
	xmpp.VerifSetStreamManagementResume(cfg, true)
	var discCount int32
	client, err := xmpp.NewClient(cfg, router, func(e error) { w.Emit(tr.Rec{"ev": "errcb", "msg": e.Error()}) })
	if err != nil {
		w.Emit(tr.Rec{"ev": "newclient", "ok": false})
		w.Emit(tr.Rec{"ev": "fin"})
		return nil
	}
	client.SetHandler(func(e xmpp.Event) error {
		st := int(xmpp.VerifEventState(e))
		if st == int(xmpp.StateDisconnected) {
			atomic.AddInt32(&discCount, 1)
		}
		w.Emit(tr.Rec{"ev": "event", "state": st, "smid": e.SMState.Id, "inbound": clampU(e.SMState.Inbound)})
		return nil
	})

	for i, cs := range sc.Conns {
		n := i + 1
		atomic.StoreInt32(&handled, 0)
		w.Emit(tr.Rec{"ev": "op", "op": cs.Op, "n": n, "nst": cs.Nst})
		opDone := make(chan struct{})
		var sessUp int32
		srvDone := make(chan struct{})
		var sconn negLink
		accepted := make(chan struct{})
		if len(cs.Replies) > 0 && cs.Replies[0].Stage == "wsdial" {
			// wss: the first thing the server does is to present a certificate to the TLS handshake of the dial
			wsCert.Store(cs.Replies[0].V)
			w.Emit(tr.Rec{"ev": "srvrep", "stage": "wsdial", "v": cs.Replies[0].V, "mechs": []string{}})
			cs.Replies = cs.Replies[1:]
		}
		go func() {
			defer close(srvDone)
			var conn negLink
			var err error
			if sc.Cfg.WS {
				// a refused certificate means that no WebSocket connection ever arrives: stop waiting when the attempt is over
				for i := 0; i < 30 && conn == nil; i++ {
					conn, err = accept(100 * time.Millisecond)
					if conn == nil {
						select {
						case <-opDone:
							conn, err = accept(50 * time.Millisecond)
							i = 30
						default:
						}
					}
				}
			} else {
				conn, err = accept(3 * time.Second)
			}
			if err != nil || conn == nil {
				close(accepted)
				return
			}
			sconn = conn
			close(accepted)
			negServe(w, conn, cs, n, opDone, &sessUp, &handled, sc.Lenient, sc.FailCond)
		}()
		discBefore := atomic.LoadInt32(&discCount)
		exitBefore := run.get("recv.exit")
		ret := make(chan error, 1)
		go func() {
			if cs.Op == "resume" {
				ret <- client.Resume()
			} else {
				ret <- client.Connect()
			}
		}()
		var operr error
		hang := false
		select {
		case operr = <-ret:
		case <-time.After(8 * time.Second):
			hang = true
		}
		out := "ok"
		if hang {
			out = "hang"
		} else if operr != nil {
			out = "err"
			var ce xmpp.ConnError
			if errors.As(operr, &ce) && ce.Permanent {
				out = "perm"
			}
		}
		w.Emit(tr.Rec{"ev": "ret", "op": cs.Op, "out": out})
		bj, smid, inb := "", "", -1
		if client.Session != nil {
			bj, smid, inb = client.Session.BindJid, client.Session.SMState.Id, clampU(client.Session.SMState.Inbound)
		}
		w.Emit(tr.Rec{"ev": "state", "bindjid": bj, "smid": smid, "inbound": inb})
		if out == "ok" {
			atomic.StoreInt32(&sessUp, 1)
		}
		close(opDone)
		select {
		case <-srvDone:
		case <-time.After(6 * time.Second):
		}
		<-accepted
		if hang {
			if sconn != nil {
				sconn.Close()
			}
			w.Emit(tr.Rec{"ev": "fin"})
			return nil
		}
		w.Emit(tr.Rec{"ev": "sess", "nst": cs.Nst, "handled": int(atomic.LoadInt32(&handled)), "up": out == "ok"})
		if sconn != nil {
			sconn.Close()
		}
		if out == "ok" {
			// the loss should be noticed by the receive loop (when there is one)
			run.waitFor(1500*time.Millisecond, func(c map[string]int) bool {
				return atomic.LoadInt32(&discCount) > discBefore && c["recv.exit"] > exitBefore
			})
		} else {
			time.Sleep(2 * time.Millisecond)
		}
		w.Emit(tr.Rec{"ev": "lost", "noticed": atomic.LoadInt32(&discCount) > discBefore})
		run.mu.Lock()
		cc := run.conn
		run.conn = nil
		run.mu.Unlock()
		if cc != nil {
			srv.HardClose(cc)
		}
	}
	w.Emit(tr.Rec{"ev": "fin"})
	return nil
}

func runNeg(args []string) error {
	c, fs := parseCommon("neg", args)
	creds := fs.Bool("creds", false, "vary user names and secrets (C14)")
	lenient := fs.Bool("lenient", false, "the server keeps answering after the script ended (C04)")
	fs.Parse(args)
	if c.worker {
		return runWorker(c, negRunOne, func() error { sessInstallHooks(); srv.GetPKI(); return nil })
	}
	lines, err := c.loadScen()
	if err != nil {
		return err
	}
	rng := rand.New(rand.NewSource(c.seed))
	users := []string{"user", "u", "üser", "a&b", "x\x00y", "name.with-dots_1", "日本"}
	secrets := []string{"secret", " lead", "trail ", "p&<>\"'x", "пароль", "\x00x", "a\nb", "tab\t", " nbsp", "s\x00", strings.Repeat("long", 30)}
	var scens []tidScen
	tid := 0
	for _, ln := range lines {
		var sc negScen
		if err := json.Unmarshal(ln, &sc); err != nil {
			return err
		}
		for ci := range sc.Conns {
			sc.Conns[ci].Nst = (tid + ci) % 3
		}
		sc.Lenient = sc.Lenient || *lenient
		if tid%3 == 2 {
			sc.Logger = true // every third scenario with a stream logger (TCP and WebSocket alike)
		}
		if sc.FailCond == "" && strings.Contains(string(ln), `"failedcond"`) {
			sc.FailCond = negFailConds[tid%len(negFailConds)]
		}
		if *creds {
			sc.User = users[rng.Intn(len(users))]
			sc.Secret = secrets[rng.Intn(len(secrets))]
		}
		b, _ := json.Marshal(sc)
		tid++
		scens = append(scens, tidScen{tid, b})
	}
	for _, s := range scens {
		c.recordScen(s.Tid, s.Scen)
	}
	c.closeScen()
	return runMaster(c, "neg", scens, nil, 40*time.Second)
}

var _ = fmt.Sprintf
