package main

import (
	"encoding/json"
	"fmt"
	"math/rand"

	"gosrc.io/xmpp/stanza"
	"verif/harness/tr"
)

// C15: abstract class strings are concretised with several members per class, parsed with
// the real NewJid, rendered with Full/Bare, and everything is mapped back to classes.

func init() { register("c15", runC15) }

type c15Scen struct {
	S []string `json:"s"`
	// C, when set, is the exact concrete string to use (replay of a reported case)
	C *string `json:"c,omitempty"`
}

var c15Members = map[string][]rune{
	"a":   []rune("abzAZ09-._~!$&()*+,;=%éß日本ݐ😀"),
	"at":  {'@'},
	"sl":  {'/'},
	"sp":  {' ', '\t', '\n', '\r', ' ', ' ', '　', '\u0085'},
	"bad": {'\'', '"', ':', '<', '>'},
}

func c15ClassOf(r rune) string {
	for cl, ms := range c15Members {
		for _, m := range ms {
			if m == r {
				return cl
			}
		}
	}
	return "a"
}

func c15Classes(s string) []string {
	out := []string{}
	for _, r := range s {
		out = append(out, c15ClassOf(r))
	}
	return out
}

func c15Parse(s string) tr.Rec {
	j, err := stanza.NewJid(s)
	if err != nil || j == nil {
		return tr.Rec{"ok": false, "n": []string{}, "d": []string{}, "r": []string{}}
	}
	return tr.Rec{"ok": true, "n": c15Classes(j.Node), "d": c15Classes(j.Domain), "r": c15Classes(j.Resource)}
}

func c15Run(w *tr.Writer, tid int, classes []string, concrete string) {
	rec := c15Parse(concrete)
	rec["ev"] = "jid"
	rec["tid"] = tid
	rec["s"] = classes
	rec["c"] = concrete
	rec["full"], rec["bare"] = []string{}, []string{}
	rec["fullre"], rec["barere"] = c15Parse(""), c15Parse("")
	if rec["ok"].(bool) {
		j, _ := stanza.NewJid(concrete)
		f, b := j.Full(), j.Bare()
		rec["full"], rec["bare"] = c15Classes(f), c15Classes(b)
		rec["fullre"], rec["barere"] = c15ParseExact(f, j, true), c15ParseExact(b, j, false)
	}
	w.Emit(rec)
}

// c15ParseExact re-parses a rendering; beyond classes it also requires the concrete parts to be
// identical (a rendering that keeps the classes but alters characters is not "the same JID"):
// a concrete mismatch is logged as a part of class "x", which no reference result contains.
func c15ParseExact(s string, orig *stanza.Jid, full bool) tr.Rec {
	r := c15Parse(s)
	if !r["ok"].(bool) {
		return r
	}
	j, _ := stanza.NewJid(s)
	wantRes := orig.Resource
	if !full {
		wantRes = ""
	}
	if j.Node != orig.Node {
		r["n"] = []string{"x"}
	}
	if j.Domain != orig.Domain {
		r["d"] = []string{"x"}
	}
	if j.Resource != wantRes {
		r["r"] = []string{"x"}
	}
	return r
}

func runC15(args []string) error {
	c, fs := parseCommon("c15", args)
	variants := fs.Int("variants", 4, "concretisations per abstract string")
	fs.Parse(args)
	w, err := tr.Create(c.out)
	if err != nil {
		return err
	}
	rng := rand.New(rand.NewSource(c.seed))
	tid := 0
	lines, err := c.loadScen()
	if err != nil {
		return err
	}
	conc := func(classes []string, canonical bool) string {
		rs := []rune{}
		for _, cl := range classes {
			ms := c15Members[cl]
			if canonical {
				rs = append(rs, ms[0])
			} else {
				rs = append(rs, ms[rng.Intn(len(ms))])
			}
		}
		return string(rs)
	}
	for _, ln := range lines {
		var s c15Scen
		if err := json.Unmarshal(ln, &s); err != nil {
			return err
		}
		if s.C != nil {
			tid++
			c.recordScen(tid, s)
			c15Run(w, tid, c15Classes(*s.C), *s.C)
			continue
		}
		for v := 0; v < *variants; v++ {
			tid++
			cs := conc(s.S, v == 0)
			c.recordScen(tid, c15Scen{S: s.S, C: &cs})
			c15Run(w, tid, s.S, cs)
		}
	}
	// seeded random longer strings
	cls := []string{"a", "a", "a", "at", "sl", "sp", "bad"}
	for i := 0; i < c.n; i++ {
		n := rng.Intn(14)
		s := make([]string, n)
		for k := range s {
			s[k] = cls[rng.Intn(len(cls))]
		}
		tid++
		cs := conc(s, false)
		c.recordScen(1000000+tid, c15Scen{S: s, C: &cs})
		c15Run(w, 1000000+tid, s, cs)
	}
	c.closeScen()
	fmt.Printf("SCENARIOS %d EVENTS %d\n", tid, w.N+1)
	return w.Close()
}
