package main

import (
	"context"
	"encoding/json"
	"fmt"
	"strconv"
	"sync"
	"time"

	xmpp "gosrc.io/xmpp"
	"gosrc.io/xmpp/stanza"
	"verif/harness/srv"
	"verif/harness/tr"
)

// Family c07: pending IQ requests under chosen schedules (IQRoutes.tla). Every schedule TLC emits
// is replayed on a real Client/Router: each SendIQ call, each dispatch of an inbound response,
// each receiver and each context cancellation is its own goroutine, stepped through the gates
// inside the library in the order of the schedule. Gates only drive; the monitor judges what the
// request channels yielded, which ordinary handlers ran, who got stuck, what is left in the table.

func init() { register("c07", runC07) }

type c07Step struct {
	P  string      `json:"p"`
	R  interface{} `json:"r"`
	K  int         `json:"k"`
	ID int         `json:"id"`
}
type c07Scen struct {
	Sched []c07Step `json:"sched"`
	// Stress > 0: instead of a schedule, that many concurrent duplicate responses through the real connection
	Stress int `json:"stress,omitempty"`
	// Shape of the first response of a stress scenario: 0 empty result, 1 type='error' without an <error/> child,
	// 2 result with a known payload and an unknown extra child, 3 result whose payload is unknown to the library
	Shape int `json:"shape,omitempty"`
	// DL: the requests' contexts carry a (far) deadline; cancellation must be honoured all the same
	DL bool `json:"dl,omitempty"`
	// Comp: the requests are made by a Component (XEP-0114), whose receive loop routes in arrival order
	Comp bool `json:"comp,omitempty"`
	// Ack (stress, client): the session has stream management; after the responses the server asks for an
	// acknowledgement: every response, delivered to a waiting request or not, is a received stanza (C09)
	Ack bool `json:"ack,omitempty"`
}

type c07Proc struct {
	name   string
	parked chan string   // the goroutine announces the gate it reached
	resume chan struct{} // the scheduler lets it go on
	done   chan struct{}
	atGate bool
}

func newProc(name string) *c07Proc {
	return &c07Proc{name: name, parked: make(chan string, 1), resume: make(chan struct{}), done: make(chan struct{})}
}

// advance releases the process if it is parked and waits until it parks again, finishes, or d elapses.
func (p *c07Proc) advance(d time.Duration) string {
	if p.atGate {
		p.atGate = false
		p.resume <- struct{}{}
	}
	select {
	case g := <-p.parked:
		p.atGate = true
		return g
	case <-p.done:
		return "done"
	case <-time.After(d):
		return "blocked"
	}
}

func (p *c07Proc) finished() bool {
	select {
	case <-p.done:
		return true
	default:
		return false
	}
}

func c07RunOne(w *tr.Writer, tid int, raw json.RawMessage, c *common) error {
	var sc c07Scen
	if err := json.Unmarshal(raw, &sc); err != nil {
		return err
	}
	w.Emit(tr.Rec{"ev": "reset", "tid": tid, "stress": sc.Stress > 0})
	var gmu sync.Mutex
	byGoid := map[string]*c07Proc{}
	ctxProcs := map[string]*c07Proc{} // by request id string
	gate := func(name string, kv []interface{}) {
		var p *c07Proc
		gmu.Lock()
		switch name {
		case "route.lookup", "route.deleted", "route.sent", "route.closed", "sendiq.written":
			p = byGoid[goid()]
		case "iqroute.ctxdone":
			if len(kv) >= 2 {
				if id, ok := kv[1].(string); ok {
					p = ctxProcs[id]
				}
			}
		}
		gmu.Unlock()
		if p == nil {
			return
		}
		p.parked <- name
		<-p.resume
	}
	var gk func(string, []interface{})
	if sc.Stress == 0 {
		gk = gate
	}
	mkEnv := newSessEnv
	if sc.Comp {
		mkEnv = newCompEnv
	}
	env, err := mkEnv(w, tid, envOpts{GateKV: gk, SM: sc.Ack && !sc.Comp, Handler: func(s xmpp.Sender, p stanza.Packet) {
		if iq, ok := p.(*stanza.IQ); ok {
			k := 0
			fmt.Sscanf(iq.From, "k%d@resp", &k)
			w.Emit(tr.Rec{"ev": "ord", "k": k, "id": iq.Id})
		}
	}})
	if err != nil {
		return err
	}
	ackH := make(chan int, 4)
	env.onElem = func(e *srv.Elem) {
		if e.Local == "a" && e.Space == srv.NSSM {
			if h, err := strconv.Atoi(e.Attr["h"]); err == nil {
				select {
				case ackH <- h:
				default:
				}
			}
		}
	}
	env.startReader()
	sendIQ := func(ctx context.Context, iq *stanza.IQ) (chan stanza.IQ, error) {
		if sc.Comp {
			return env.comp.SendIQ(ctx, iq)
		}
		return env.client.SendIQ(ctx, iq)
	}
	idStr := func(i int) string { return "req-id-" + strconv.Itoa(i) }

	type req struct {
		name   string
		id     int
		ch     chan stanza.IQ
		cancel context.CancelFunc
		ctx    context.Context
		sp     *c07Proc
		aband  bool
	}
	reqs := map[string]*req{}
	disps := map[int]*c07Proc{}
	dispID := map[int]int{}
	step := 40 * time.Millisecond

	readOnce := func(r *req, d time.Duration) {
		if r.ch == nil {
			w.Emit(tr.Rec{"ev": "noval", "r": r.name, "why": "nochan"})
			return
		}
		select {
		case v, ok := <-r.ch:
			if !ok {
				w.Emit(tr.Rec{"ev": "closed", "r": r.name})
				return
			}
			k := 0
			fmt.Sscanf(v.From, "k%d@resp", &k)
			w.Emit(tr.Rec{"ev": "val", "r": r.name, "k": k, "id": v.Id})
		case <-time.After(d):
			w.Emit(tr.Rec{"ev": "noval", "r": r.name, "why": "timeout"})
		}
	}
	mkResp := func(k, id int) *stanza.IQ {
		typ := stanza.IQTypeResult
		if k%2 == 0 {
			typ = stanza.IQTypeError
		}
		iq := &stanza.IQ{Attrs: stanza.Attrs{Type: typ, Id: idStr(id), From: "k" + strconv.Itoa(k) + "@resp"}}
		iq.XMLName.Local = "iq"
		return iq
	}

	if sc.Stress > 0 {
		// one request, many duplicate responses arriving concurrently through the real connection, receiver reads once
		ctx, cancel := context.WithCancel(context.Background())
		iq, _ := stanza.NewIQ(stanza.Attrs{Type: stanza.IQTypeGet, Id: idStr(1), To: "localhost"})
		iq.Payload = &stanza.Version{}
		ch, err := sendIQ(ctx, iq)
		w.Emit(tr.Rec{"ev": "sb", "r": "r1", "id": 1, "ok": err == nil})
		all := ""
		for k := 1; k <= sc.Stress; k++ {
			w.Emit(tr.Rec{"ev": "look", "k": k, "id": 1})
			from := "' from='k" + strconv.Itoa(k) + "@resp'"
			switch {
			case k == 1 && sc.Shape == 1:
				all += "<iq type='error' id='" + idStr(1) + from + "/>"
			case k == 1 && sc.Shape == 2:
				all += "<iq type='result' id='" + idStr(1) + from + "><query xmlns='jabber:iq:version'><name>srv</name></query><extra xmlns='urn:example:unknown'>x</extra></iq>"
			case k == 1 && sc.Shape == 3:
				all += "<iq type='result' id='" + idStr(1) + from + "><thing xmlns='urn:example:unknown'><deep/></thing></iq>"
			default:
				all += "<iq type='result' id='" + idStr(1) + from + "/>"
			}
		}
		env.conn.Write(all)
		r := &req{name: "r1", id: 1, ch: ch}
		readOnce(r, 500*time.Millisecond)
		time.Sleep(30 * time.Millisecond)
		readOnce(r, 100*time.Millisecond)
		ok := env.run.waitFor(1500*time.Millisecond, func(c map[string]int) bool {
			return c["route.end"] >= sc.Stress && c["route.begin"] == c["route.end"]
		})
		if !ok {
			w.Emit(tr.Rec{"ev": "stuck", "k": 0, "n": env.run.get("route.begin") - env.run.get("route.end")})
		}
		if sc.Ack && !sc.Comp {
			env.conn.Write("<r xmlns='" + srv.NSSM + "'/>")
			select {
			case h := <-ackH:
				w.Emit(tr.Rec{"ev": "ackh", "h": h, "want": sc.Stress})
			case <-time.After(2 * time.Second):
				w.Emit(tr.Rec{"ev": "ackh", "h": -1, "want": sc.Stress})
			}
		}
		cancel()
		time.Sleep(5 * time.Millisecond)
		w.Emit(tr.Rec{"ev": "left", "n": leftRoutes(env.router)})
		env.teardown()
		w.Emit(tr.Rec{"ev": "fin"})
		return nil
	}

	for _, st := range sc.Sched {
		rname, _ := st.R.(string)
		switch st.P {
		case "sendbegin":
			ctx, cancel := context.WithCancel(context.Background())
			if sc.DL {
				var c2 context.CancelFunc
				ctx, c2 = context.WithTimeout(ctx, time.Hour)
				_ = c2
			}
			r := &req{name: rname, id: st.ID, cancel: cancel, ctx: ctx, sp: newProc("send-" + rname)}
			reqs[rname] = r
			cp := newProc("ctx-" + rname)
			gmu.Lock()
			ctxProcs[idStr(st.ID)] = cp
			gmu.Unlock()
			ready := make(chan struct{})
			go func() {
				gmu.Lock()
				byGoid[goid()] = r.sp
				gmu.Unlock()
				close(ready)
				iq, _ := stanza.NewIQ(stanza.Attrs{Type: stanza.IQTypeGet, Id: idStr(r.id), To: "localhost"})
				iq.Payload = &stanza.Version{}
				ch, err := sendIQ(r.ctx, iq)
				r.ch = ch
				_ = err
				close(r.sp.done)
			}()
			<-ready
			g := r.sp.advance(step) // runs until the request is written (gate) or SendIQ returned
			w.Emit(tr.Rec{"ev": "sb", "r": rname, "id": st.ID, "ok": true, "at": g})
		case "sendend":
			if r := reqs[rname]; r != nil {
				r.sp.advance(step)
				w.Emit(tr.Rec{"ev": "se", "r": rname})
			}
		case "arrive":
			dispID[st.K] = st.ID
			w.Emit(tr.Rec{"ev": "arr", "k": st.K, "id": st.ID})
		case "dstep":
			p := disps[st.K]
			if p == nil {
				p = newProc("disp-" + strconv.Itoa(st.K))
				disps[st.K] = p
				k := st.K
				ready := make(chan struct{})
				go func() {
					gmu.Lock()
					byGoid[goid()] = p
					gmu.Unlock()
					close(ready)
					xmpp.VerifRoute(env.router, env.sender, mkResp(k, dispID[k]))
					close(p.done)
				}()
				<-ready
				w.Emit(tr.Rec{"ev": "look", "k": st.K, "id": dispID[st.K]})
				p.advance(step)
			} else if !p.finished() {
				p.advance(step)
			}
		case "recv":
			if r := reqs[rname]; r != nil {
				// SendIQ must have returned for the caller to hold the channel
				if !r.sp.finished() {
					r.sp.advance(step)
				}
				readOnce(r, step)
			}
		case "abandon":
			if r := reqs[rname]; r != nil {
				r.aband = true
				w.Emit(tr.Rec{"ev": "abandon", "r": rname})
			}
		case "cancel":
			if r := reqs[rname]; r != nil {
				w.Emit(tr.Rec{"ev": "cancel", "r": rname})
				r.cancel()
				gmu.Lock()
				cp := ctxProcs[idStr(r.id)]
				gmu.Unlock()
				if cp != nil {
					cp.advance(step)
				}
			}
		case "ctxclean":
			if r := reqs[rname]; r != nil {
				gmu.Lock()
				cp := ctxProcs[idStr(r.id)]
				gmu.Unlock()
				if cp != nil && cp.atGate {
					cp.atGate = false
					cp.resume <- struct{}{}
					time.Sleep(2 * time.Millisecond)
				}
				w.Emit(tr.Rec{"ev": "clean", "r": rname})
			}
		}
	}
	// let everything run to its end: release all gates repeatedly
	deadline := time.Now().Add(1500 * time.Millisecond)
	for time.Now().Before(deadline) {
		busy := false
		for _, r := range reqs {
			if !r.sp.finished() {
				r.sp.advance(5 * time.Millisecond)
				busy = true
			}
		}
		for _, p := range disps {
			if !p.finished() {
				p.advance(5 * time.Millisecond)
				busy = true
			}
		}
		// receivers that did not abandon their channel read it to the end
		for _, r := range reqs {
			if !r.aband && r.ch != nil && r.sp.finished() {
				select {
				case v, ok := <-r.ch:
					if ok {
						k := 0
						fmt.Sscanf(v.From, "k%d@resp", &k)
						w.Emit(tr.Rec{"ev": "val", "r": r.name, "k": k, "id": v.Id})
						busy = true
					} else {
						if !r.aband {
							w.Emit(tr.Rec{"ev": "closed", "r": r.name})
						}
						r.aband = true // stop reading a closed channel
					}
				default:
				}
			}
		}
		if !busy {
			break
		}
	}
	for k, p := range disps {
		if !p.finished() {
			w.Emit(tr.Rec{"ev": "stuck", "k": k, "n": 1})
		}
	}
	w.Emit(tr.Rec{"ev": "left", "n": leftRoutes(env.router)})
	for _, r := range reqs {
		r.cancel()
	}
	// parked context goroutines and stuck dispatchers are left behind in this worker: release what can be released
	gmu.Lock()
	for _, cp := range ctxProcs {
		go func(cp *c07Proc) {
			for i := 0; i < 3; i++ {
				select {
				case <-cp.parked:
					cp.resume <- struct{}{}
				case <-time.After(50 * time.Millisecond):
				}
			}
		}(cp)
	}
	gmu.Unlock()
	time.Sleep(5 * time.Millisecond)
	hooks := env.run.get("route.lookup") + env.run.get("sendiq.written")
	env.teardown()
	w.Emit(tr.Rec{"ev": "fin"})
	if hooks == 0 && len(sc.Sched) > 3 {
		return fmt.Errorf("hook missing: neither route.lookup nor sendiq.written ever fired")
	}
	return nil
}

// leftRoutes returns the number of pending entries, or -1 when the table's lock cannot be had (somebody
// holds it for good: packet processing is blocked).
func leftRoutes(r *xmpp.Router) int {
	for i := 0; i < 50; i++ {
		if r.IQResultRouteLock.TryRLock() {
			defer r.IQResultRouteLock.RUnlock()
			return len(r.IQResultRoutes)
		}
		time.Sleep(2 * time.Millisecond)
	}
	return -1
}

func runC07(args []string) error {
	c, fs := parseCommon("c07", args)
	stress := fs.Int("stress", 0, "number of stress scenarios (duplicates through the real connection)")
	fs.Parse(args)
	if c.worker {
		return runWorker(c, c07RunOne, func() error { sessInstallHooks(); return nil })
	}
	lines, err := c.loadScen()
	if err != nil {
		return err
	}
	var scens []tidScen
	tid := 0
	for _, ln := range lines {
		tid++
		if tid%2 == 0 || tid%5 == 0 {
			var sc c07Scen
			if json.Unmarshal(ln, &sc) == nil {
				sc.DL = sc.DL || tid%2 == 0
				sc.Comp = sc.Comp || tid%5 == 0
				ln, _ = json.Marshal(sc)
			}
		}
		scens = append(scens, tidScen{tid, ln})
	}
	for i := 0; i < *stress; i++ {
		b, _ := json.Marshal(c07Scen{Stress: 1 + i%7, Shape: (i / 7) % 4, Comp: i%3 == 2, Ack: i%3 == 1})
		tid++
		scens = append(scens, tidScen{1000000 + tid, b})
	}
	for _, s := range scens {
		c.recordScen(s.Tid, s.Scen)
	}
	c.closeScen()
	_ = srv.NSSM
	return runMaster(c, "c07", scens, nil, 30*time.Second)
}
