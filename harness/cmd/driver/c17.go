package main

import (
	"strings"
	"encoding/json"
	"fmt"
	"math/rand"

	"gosrc.io/xmpp/stanza"
	"verif/harness/tr"
)

// C17: apply operation histories to a real stanza.UnAckQueue; log every
// return value and the whole queue after each call.

func init() { register("c17", runC17) }

type c17Op struct {
	Op string `json:"op"`
	K  int    `json:"k"`
}
type c17Scen struct {
	Ops []c17Op `json:"ops"`
}

func c17Entry(e *stanza.UnAckedStz, tags map[string]int) []int {
	return []int{e.Id, tags[e.Stz]}
}

func c17Queue(q *stanza.UnAckQueue, tags map[string]int) [][]int {
	out := make([][]int, 0, len(q.Uslice))
	for _, e := range q.Uslice {
		out = append(out, c17Entry(e, tags))
	}
	return out
}

func c17Many(r []stanza.Queueable, tags map[string]int) tr.Rec {
	if r == nil {
		return tr.Rec{"kind": "nil"}
	}
	v := make([][]int, 0, len(r))
	for _, x := range r {
		v = append(v, c17Entry(x.(*stanza.UnAckedStz), tags))
	}
	return tr.Rec{"kind": "many", "v": v}
}

func c17One(r stanza.Queueable, tags map[string]int) tr.Rec {
	if r == nil {
		return tr.Rec{"kind": "nil"}
	}
	e, ok := r.(*stanza.UnAckedStz)
	if !ok || e == nil {
		return tr.Rec{"kind": "nil"}
	}
	return tr.Rec{"kind": "one", "v": c17Entry(e, tags)}
}

// clampK keeps logged integers inside TLC's 32-bit range; semantics of k are
// unchanged as long as queues stay shorter than the clamp.
func clampK(k int) int {
	if k > 1000000 {
		return 1000000
	}
	if k < -1000000 {
		return -1000000
	}
	return k
}

// c17Payload concretises payload tag k. The queue is payload-agnostic by its contract, so the strings range over
// everything a caller can hand to Send / SendRaw: stanzas of the three kinds, stream-management elements in several
// spellings, text that is not XML, the empty string, a 12 kB stanza. The class rotates with the scenario so that the
// two tags of the exhaustive histories meet every class. Injective in k within one scenario.
func c17Payload(k, tid int) string {
	const T = 14
	switch (k + tid) % T {
	case 1:
		return fmt.Sprintf("<r xmlns='urn:xmpp:sm:3' n='%d'/>", k)
	case 2:
		return fmt.Sprintf("<a xmlns='urn:xmpp:sm:3' h='%d'/>", k)
	case 3:
		return fmt.Sprintf("<enable xmlns=\"urn:xmpp:sm:3\" resume=\"true\" max='%d'/>", k)
	case 4:
		return fmt.Sprintf("<resume xmlns='urn:xmpp:sm:3' previd='some-id' h='%d'/>", k)
	case 5:
		return fmt.Sprintf("<sm:r xmlns:sm='urn:xmpp:sm:3' n='%d'/>", k)
	case 6:
		return fmt.Sprintf("<presence id='%d'><show>away</show></presence>", k)
	case 7:
		return fmt.Sprintf("<iq id='%d' type='get'><ping xmlns='urn:xmpp:ping'/></iq>", k)
	case 8:
		return fmt.Sprintf("not xml at all %d", k)
	case 9:
		return fmt.Sprintf("<message id='big%d'><body>%s</body></message>", k, strings.Repeat("x", 12000))
	case 10:
		if k == 1 {
			return ""
		}
		if k == 2 {
			return " "
		}
	case 11:
		return fmt.Sprintf("  \n<r xmlns='urn:xmpp:sm:3'/><!-- %d -->", k)
	case 12:
		return fmt.Sprintf("<message id='%d' to='a@b/c'><r xmlns='urn:xmpp:sm:3'/></message>", k)
	}
	return fmt.Sprintf("<message id='p%d'/>", k)
}

func c17Run(w *tr.Writer, tid int, ops []c17Op) {
	w.Emit(tr.Rec{"ev": "reset", "tid": tid})
	q := stanza.NewUnAckQueue()
	tags := map[string]int{}
	for _, o := range ops {
		rec := tr.Rec{"ev": "op", "op": o.Op, "k": clampK(o.K)}
		switch o.Op {
		case "push":
			s := c17Payload(o.K, tid)
			tags[s] = o.K
			_ = q.Push(&stanza.UnAckedStz{Id: 7777, Stz: s}) // the Id passed in must be ignored
			rec["ret"] = tr.Rec{"kind": "none"}
		case "pop":
			rec["ret"] = c17One(q.Pop(), tags)
		case "peek":
			rec["ret"] = c17One(q.Peek(), tags)
		case "popn":
			rec["ret"] = c17Many(q.PopN(o.K), tags)
		case "peekn":
			rec["ret"] = c17Many(q.PeekN(o.K), tags)
		case "empty":
			rec["ret"] = tr.Rec{"kind": "bool", "v": q.Empty()}
		default:
			panic("bad op " + o.Op)
		}
		rec["q"] = c17Queue(q, tags)
		w.Emit(rec)
	}
}

func runC17(args []string) error {
	c, fs := parseCommon("c17", args)
	maxLen := fs.Int("len", 40, "length of random histories")
	fs.Parse(args)
	w, err := tr.Create(c.out)
	if err != nil {
		return err
	}
	tid := 0
	lines, err := c.loadScen()
	if err != nil {
		return err
	}
	for _, ln := range lines {
		var s c17Scen
		if err := json.Unmarshal(ln, &s); err != nil {
			return err
		}
		tid++
		c.recordScen(tid, s)
		c17Run(w, tid, s.Ops)
	}
	// seeded random histories: long, k over the whole int range
	rng := rand.New(rand.NewSource(c.seed))
	for i := 0; i < c.n; i++ {
		n := 1 + rng.Intn(*maxLen)
		ops := make([]c17Op, 0, n)
		next := 1
		npay := 1 + rng.Intn(4) // few distinct payloads: equal stanzas are legal and common
		if rng.Intn(3) == 0 {
			npay = 1000000
		}
		pushP := 4
		if i%3 == 1 { // burst profile: long queues, then large pop-n
			for b, nb := 0, 20+rng.Intn(140); b < nb; b++ {
				ops = append(ops, c17Op{"push", 1 + rng.Intn(npay)})
			}
			k := len(ops) - rng.Intn(30)
			ops = append(ops, c17Op{[]string{"popn", "peekn", "popn"}[rng.Intn(3)], k})
			pushP = 2
		}
		for j := 0; j < n; j++ {
			var o c17Op
			switch r := rng.Intn(10); {
			case r < pushP:
				o = c17Op{"push", 1 + rng.Intn(npay)}
				next++
			case r < 5:
				o = c17Op{"pop", 0}
			case r < 6:
				o = c17Op{"peek", 0}
			case r < 7:
				o = c17Op{"empty", 0}
			default:
				name := "popn"
				if r == 9 || (r == 8 && rng.Intn(2) == 0) {
					name = "peekn"
				}
				var k int
				switch rng.Intn(6) {
				case 0:
					k = -rng.Intn(5)
				case 1:
					k = rng.Intn(4)
				case 2:
					k = rng.Intn(12)
				case 3:
					k = int(rng.Int63()) // huge
				case 4:
					k = -int(rng.Int63())
				default:
					k = rng.Intn(3)
				}
				o = c17Op{name, k}
			}
			ops = append(ops, o)
		}
		tid++
		c.recordScen(1000000+tid, c17Scen{ops})
		c17Run(w, 1000000+tid, ops)
	}
	c.closeScen()
	fmt.Printf("SCENARIOS %d EVENTS %d\n", tid, w.N+1)
	return w.Close()
}
