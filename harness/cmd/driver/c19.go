package main

import (
	"encoding/json"
	"fmt"
	"math/rand"
	"time"

	xmpp "gosrc.io/xmpp"
	"verif/harness/tr"
)

// C19: drive the real backoff through the verif exports; log every returned duration.

func init() { register("c19", runC19) }

type c19P struct {
	Base     int  `json:"base"`
	Factor   int  `json:"factor"`
	Cap      int  `json:"cap"`
	NoJitter bool `json:"nojitter"`
}
type c19Op struct {
	Op string `json:"op"`
	N  int    `json:"n"`
}
type c19Scen struct {
	P   c19P    `json:"p"`
	Ops []c19Op `json:"ops"`
}

func c19Dur(f func() time.Duration) (d int, exact bool, panicked bool) {
	defer func() {
		if r := recover(); r != nil {
			d, exact, panicked = 0, true, true
		}
	}()
	x := f()
	ms := x / time.Millisecond
	exact = x%time.Millisecond == 0
	if ms > 2000000000 {
		ms = 2000000000
	}
	if ms < -2000000000 {
		ms = -2000000000
	}
	return int(ms), exact, false
}

func c19Run(w *tr.Writer, tid int, s c19Scen) {
	w.Emit(tr.Rec{"ev": "reset", "tid": tid, "p": s.P})
	b := &xmpp.VerifBackoff{NoJitter: s.P.NoJitter, Base: s.P.Base, Factor: s.P.Factor, Cap: s.P.Cap}
	for _, o := range s.Ops {
		n := o.N
		if n > 2000000000 {
			n = 2000000000 // the delay saturates long before; TLC integers are 32 bit
		}
		rec := tr.Rec{"ev": "op", "op": o.Op, "n": n, "d": 0, "exact": true, "panic": false}
		switch o.Op {
		case "wait":
			rec["d"], rec["exact"], rec["panic"] = c19Dur(func() time.Duration { return xmpp.VerifBackoffDuration(b) })
		case "reset":
			xmpp.VerifBackoffReset(b)
		case "query":
			rec["d"], rec["exact"], rec["panic"] = c19Dur(func() time.Duration { return xmpp.VerifBackoffDurationForAttempt(b, o.N) })
		}
		w.Emit(rec)
	}
}

func runC19(args []string) error {
	c, fs := parseCommon("c19", args)
	fs.Parse(args)
	w, err := tr.Create(c.out)
	if err != nil {
		return err
	}
	tid := 0
	lines, err := c.loadScen()
	if err != nil {
		return err
	}
	for _, ln := range lines {
		var s c19Scen
		if err := json.Unmarshal(ln, &s); err != nil {
			return err
		}
		tid++
		c.recordScen(tid, s)
		c19Run(w, tid, s)
	}
	rng := rand.New(rand.NewSource(c.seed))
	pick := func(xs ...int) int { return xs[rng.Intn(len(xs))] }
	for i := 0; i < c.n; i++ {
		s := c19Scen{P: c19P{
			Base:     pick(0, 1, 2, 20, 25, 1+rng.Intn(5000)),
			Factor:   pick(0, 1, 2, 3, 10, 1+rng.Intn(100)),
			Cap:      pick(0, 1, 180000, 1+rng.Intn(10000000), 1+rng.Intn(1000)),
			NoJitter: rng.Intn(3) != 0,
		}}
		for j, n := 0, 1+rng.Intn(80); j < n; j++ {
			switch r := rng.Intn(10); {
			case r < 6:
				s.Ops = append(s.Ops, c19Op{"wait", 0})
			case r < 7:
				s.Ops = append(s.Ops, c19Op{"reset", 0})
			default:
				s.Ops = append(s.Ops, c19Op{"query", pick(rng.Intn(40), rng.Intn(2000), int(rng.Int63()), 62, 63, 64, 1<<31-1, 1<<31, 1<<32)})
			}
		}
		if i%25 == 7 {
			// a long outage: the stateful counter goes far beyond every power-of-two threshold (64, 256, 1024, 2048; now
			// and then 32768, 65536), and then the per-attempt query must still answer for the n it is asked about
			k := pick(70, 130, 300, 1100, 1100, 2100, 2100, 4200)
			if i%600 == 7 {
				k = pick(33000, 66000)
			}
			s.Ops = s.Ops[:0]
			for j := 0; j < k; j++ {
				s.Ops = append(s.Ops, c19Op{"wait", 0})
				if j%97 == 96 {
					s.Ops = append(s.Ops, c19Op{"query", pick(0, 1, 2, 5, 13, 14, 64, 1023, 1024, 1025, j)})
				}
			}
			for _, n := range []int{0, 1, 2, 3, 7, 13, 14, 63, 64, 1023, 1024, 1025, 5000, 1<<31 - 1} {
				s.Ops = append(s.Ops, c19Op{"query", n})
			}
			s.Ops = append(s.Ops, c19Op{"wait", 0}, c19Op{"reset", 0}, c19Op{"query", 0}, c19Op{"query", 3}, c19Op{"wait", 0}, c19Op{"wait", 0})
		}
		tid++
		c.recordScen(1000000+tid, s)
		c19Run(w, 1000000+tid, s)
	}
	c.closeScen()
	fmt.Printf("SCENARIOS %d EVENTS %d\n", tid, w.N+1)
	return w.Close()
}
