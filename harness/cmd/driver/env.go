package main

import (
	"crypto/tls"
	"fmt"
	"os"
	"sync"
	"time"

	xmpp "gosrc.io/xmpp"
	"gosrc.io/xmpp/stanza"
	"verif/harness/srv"
	"verif/harness/tr"
)

// sessEnv is an established client session against the scripted server, shared by the
// families that need one (c08, c18, c07 ...).
type sessEnv struct {
	run    *sessRun
	server *srv.Server
	wssrv  *srv.WSServer
	conn   srvStream
	ws     bool
	wsBase int
	client *xmpp.Client
	comp   *xmpp.Component
	sender xmpp.StreamClient // the client or the component: Send / SendRaw / SendIQ
	router *xmpp.Router
	w      *tr.Writer
	before map[string]string
	logf   *os.File
	onElem func(e *srv.Elem) // called by the server reader for every element (not whitespace)
	onWS   func(e *srv.Elem) // called for whitespace keepalives
	rdDone chan struct{}
}

type envOpts struct {
	SM        bool
	Logger    bool
	Keepalive time.Duration
	Handler   func(s xmpp.Sender, p stanza.Packet)
	Gate      func(name string)
	GateKV    func(name string, kv []interface{})
	FailWrite int
	Partial   bool
	KeepOpen  bool
	FailOnce  bool
	WS        bool // XMPP over WebSocket instead of TCP
	TLS       bool // the session is negotiated over STARTTLS (in-process CA); TCP only
}

func newSessEnv(w *tr.Writer, tid int, o envOpts) (*sessEnv, error) {
	run := &sessRun{cnt: map[string]int{}, w: w, tid: tid, gate: o.Gate, gateKV: o.GateKV}
	run.cond = sync.NewCond(&run.mu)
	curRun.Store(run)
	env := &sessEnv{run: run, w: w, before: libGoroutines(), rdDone: make(chan struct{})}
	addr := ""
	env.ws = o.WS
	if o.WS {
		wss, err := srv.ListenWS()
		if err != nil {
			return nil, err
		}
		env.wssrv, addr = wss, wss.Addr
	} else {
		server, err := srv.Listen()
		if err != nil {
			return nil, err
		}
		env.server, addr = server, server.Addr
	}
	env.router = xmpp.NewRouter()
	if o.Handler != nil {
		env.router.NewRoute().HandlerFunc(o.Handler)
	}
	ka := o.Keepalive
	if ka == 0 {
		ka = time.Hour
	}
	cfg := &xmpp.Config{
		TransportConfiguration: xmpp.TransportConfiguration{Address: addr, ConnectTimeout: 1},
		Jid:                    "test@localhost/res",
		Credential:             xmpp.Password("secret"),
		Insecure:               true,
		StreamManagementEnable: o.SM,
		KeepaliveInterval:      ka,
		ConnectTimeout:         1,
	}
	if o.TLS && !o.WS {
		cfg.TLSConfig = &tls.Config{RootCAs: srv.GetPKI().Pool}
		cfg.Insecure = false
		cfg.TransportConfiguration.Domain = "localhost"
	}
	if o.Logger {
		f, err := os.CreateTemp("", "verif-streamlog-*")
		if err != nil {
			return nil, err
		}
		env.logf = f
		cfg.StreamLogger = f
	}
	xmpp.VerifSetStreamManagementResume(cfg, true)
	client, err := xmpp.NewClient(cfg, env.router, func(e error) { w.Emit(tr.Rec{"ev": "errcb"}) })
	if err != nil {
		return nil, fmt.Errorf("NewClient: %v", err)
	}
	env.client, env.sender = client, client
	client.SetHandler(func(e xmpp.Event) error {
		w.Emit(tr.Rec{"ev": "event", "state": int(xmpp.VerifEventState(e)), "smid": e.SMState.Id, "inbound": clampU(e.SMState.Inbound)})
		return nil
	})
	type negOut struct {
		conn srvStream
		err  error
	}
	negc := make(chan negOut, 1)
	nopts := srv.NegotiateOpts{SM: o.SM, SMID: sessSMID, Resume: true, StreamID: "sid-1", Jid: "test@localhost/res"}
	if o.TLS && !o.WS {
		cert := srv.GetPKI().Certs["valid"]
		nopts.TLSCert = &cert
	}
	go func() {
		if o.WS {
			conn, err := env.wssrv.Accept(5 * time.Second)
			if err != nil {
				negc <- negOut{nil, err}
				return
			}
			_, err = conn.NegotiateWS(nopts, 5*time.Second)
			negc <- negOut{conn, err}
			return
		}
		conn, err := env.server.Accept(5 * time.Second)
		if err != nil {
			negc <- negOut{nil, err}
			return
		}
		_, err = conn.Negotiate(nopts, 5*time.Second)
		negc <- negOut{conn, err}
	}()
	cerr := client.Connect()
	neg := <-negc
	if neg.err != nil || cerr != nil {
		if neg.conn != nil {
			neg.conn.Close()
		}
		env.close()
		return nil, fmt.Errorf("precondition: session could not be established (client: %v, server: %v)", cerr, neg.err)
	}
	env.conn = neg.conn
	env.wsBase = run.get("ws.write")
	run.mu.Lock()
	run.bytesRead = run.bytesWritten
	run.failAt = o.FailWrite
	run.partial = o.Partial
	run.keepOpen = o.KeepOpen
	run.failOnce = o.FailOnce
	run.armed = true
	run.mu.Unlock()
	if !run.waitFor(3*time.Second, func(c map[string]int) bool { return c["recv.wait"] >= 1 }) {
		env.close()
		return nil, fmt.Errorf("hook missing: recv.wait never fired (is /repo built with -tags verif and are the hook call sites intact?)")
	}
	return env, nil
}

// startReader consumes what the client writes.
func (env *sessEnv) startReader() {
	go func() {
		defer close(env.rdDone)
		for {
			e, err := env.conn.ReadElem(30 * time.Second)
			if err == srv.ErrTimeout {
				continue
			}
			if err != nil {
				return
			}
			if e.Kind == "ws" {
				if env.onWS != nil {
					env.onWS(e)
				}
			} else if env.onElem != nil {
				env.onElem(e)
			}
			env.run.mu.Lock()
			env.run.bytesRead += int64(len(e.Raw))
			env.run.framesRead++
			env.run.cond.Broadcast()
			env.run.mu.Unlock()
		}
	}()
}

// drained waits until the server has read everything the client wrote.
func (env *sessEnv) drained(timeout time.Duration) bool {
	return env.run.waitFor(timeout, func(c map[string]int) bool {
		if env.ws {
			return env.run.framesRead >= c["ws.write"]-env.wsBase || env.run.faulted
		}
		return env.run.bytesRead >= env.run.bytesWritten || env.run.faulted
	})
}

// teardown cuts the connection from the server side and waits for the loops to end.
func (env *sessEnv) teardown() {
	env.conn.Close()
	env.run.waitFor(3*time.Second, func(c map[string]int) bool {
		return c["recv.exit"] >= 1 && c["ka.exit"] >= c["ka.start"] && c["route.begin"] == c["route.end"]
	})
	<-env.rdDone
	env.close()
}

func (env *sessEnv) close() {
	if env.server != nil {
		env.server.Close()
	}
	if env.wssrv != nil {
		env.wssrv.Close()
	}
	env.run.mu.Lock()
	cc := env.run.conn
	env.run.mu.Unlock()
	if cc != nil {
		srv.HardClose(cc)
	}
	if env.logf != nil {
		env.logf.Close()
		os.Remove(env.logf.Name())
	}
	curRun.Store(nil)
}

// reconnect establishes another session with the same client object (Connect again) on a new
// server-side connection; fault counters are re-armed.
func (env *sessEnv) reconnect(o envOpts) error {
	type negOut struct {
		conn *srv.Conn
		err  error
	}
	negc := make(chan negOut, 1)
	go func() {
		if env.server == nil {
			negc <- negOut{nil, fmt.Errorf("reconnect: TCP only")}
			return
		}
		conn, err := env.server.Accept(5 * time.Second)
		if err != nil {
			negc <- negOut{nil, err}
			return
		}
		_, err = conn.Negotiate(srv.NegotiateOpts{SM: o.SM, SMID: sessSMID + "b", Resume: true, StreamID: "sid-2", Jid: "test@localhost/res"}, 5*time.Second)
		negc <- negOut{conn, err}
	}()
	env.run.mu.Lock()
	env.run.armed, env.run.faulted, env.run.writes = false, false, 0
	env.run.mu.Unlock()
	cerr := env.client.Connect()
	neg := <-negc
	if neg.err != nil || cerr != nil {
		return fmt.Errorf("precondition: second session could not be established (client: %v, server: %v)", cerr, neg.err)
	}
	env.conn = neg.conn
	env.rdDone = make(chan struct{})
	env.run.mu.Lock()
	env.run.bytesRead = env.run.bytesWritten
	env.run.failAt, env.run.partial, env.run.keepOpen, env.run.failOnce = o.FailWrite, o.Partial, o.KeepOpen, o.FailOnce
	env.run.armed = true
	env.run.mu.Unlock()
	return nil
}

// newCompEnv: an established XEP-0114 component session against the scripted server (TCP).
func newCompEnv(w *tr.Writer, tid int, o envOpts) (*sessEnv, error) {
	run := &sessRun{cnt: map[string]int{}, w: w, tid: tid, gate: o.Gate, gateKV: o.GateKV}
	run.cond = sync.NewCond(&run.mu)
	curRun.Store(run)
	env := &sessEnv{run: run, w: w, before: libGoroutines(), rdDone: make(chan struct{})}
	server, err := srv.Listen()
	if err != nil {
		return nil, err
	}
	env.server = server
	env.router = xmpp.NewRouter()
	if o.Handler != nil {
		env.router.NewRoute().HandlerFunc(o.Handler)
	}
	opts := xmpp.ComponentOptions{
		TransportConfiguration: xmpp.TransportConfiguration{Address: server.Addr, Domain: "comp.localhost", ConnectTimeout: 1},
		Domain:                 "comp.localhost", Secret: "secret", Name: "verif component",
	}
	comp, err := xmpp.NewComponent(opts, env.router, func(e error) { w.Emit(tr.Rec{"ev": "errcb"}) })
	if err != nil {
		return nil, err
	}
	env.comp, env.sender = comp, comp
	type negOut struct {
		conn *srv.Conn
		err  error
	}
	negc := make(chan negOut, 1)
	go func() {
		conn, err := server.Accept(5 * time.Second)
		if err != nil {
			negc <- negOut{nil, err}
			return
		}
		if _, err := conn.Expect(5 * time.Second); err != nil {
			negc <- negOut{conn, err}
			return
		}
		conn.Write("<?xml version='1.0'?><stream:stream xmlns:stream='" + srv.NSStream + "' xmlns='jabber:component:accept' from='comp.localhost' id='cid-1'>")
		if _, err := conn.Expect(5 * time.Second); err != nil {
			negc <- negOut{conn, err}
			return
		}
		negc <- negOut{conn, conn.Write("<handshake/>")}
	}()
	cerr := comp.Connect()
	neg := <-negc
	if neg.err != nil || cerr != nil {
		if neg.conn != nil {
			neg.conn.Close()
		}
		env.close()
		return nil, fmt.Errorf("precondition: component session could not be established (component: %v, server: %v)", cerr, neg.err)
	}
	env.conn = neg.conn
	run.mu.Lock()
	run.bytesRead = run.bytesWritten
	run.failAt, run.partial, run.keepOpen, run.failOnce = o.FailWrite, o.Partial, o.KeepOpen, o.FailOnce
	run.armed = true
	run.mu.Unlock()
	return env, nil
}
