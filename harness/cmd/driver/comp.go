package main

import (
	"crypto/sha1"
	"encoding/hex"
	"encoding/json"
	"fmt"
	"strconv"
	"strings"
	"sync"
	"sync/atomic"
	"time"

	xmpp "gosrc.io/xmpp"
	"gosrc.io/xmpp/stanza"
	"verif/harness/srv"
	"verif/harness/tr"
)

// Family "comp": XEP-0114 component connections (ComponentSession.tla; C16, component clause of C05).

func init() { register("comp", runComp) }

type compConn struct {
	Idc   string   `json:"idc"`
	Reply string   `json:"reply"`
	Stz   []string `json:"stz"`
}
type compScen struct {
	Conns  []compConn `json:"conns"`
	Secret string     `json:"secret,omitempty"`
}

const nsComp = "jabber:component:accept"

func compID(class string, n int) (attr string, plain string) {
	switch class {
	case "plain":
		p := "stream-" + strconv.Itoa(n) + "-91bd0bba"
		return p, p
	case "escaped":
		return "a&amp;b&lt;c&quot;d&apos;e&gt;" + strconv.Itoa(n), "a&b<c\"d'e>" + strconv.Itoa(n)
	case "nonascii":
		p := "ид-日本-ü-" + strconv.Itoa(n)
		return p, p
	case "long":
		p := strings.Repeat("0123456789abcdef", 20) + strconv.Itoa(n)
		return p, p
	case "ctrl":
		// TAB, LF and CR written as character references are part of the value (XML 1.0 3.3.3 exempts references from
		// attribute-value normalisation), and so are leading / trailing / doubled spaces
		return "a&#x9;b&#xA;c&#xD;d  e " + strconv.Itoa(n) + " ", "a\tb\nc\rd  e " + strconv.Itoa(n) + " "
	}
	return "", ""
}

func compRunOne(w *tr.Writer, tid int, raw json.RawMessage, c *common) error {
	var sc compScen
	if err := json.Unmarshal(raw, &sc); err != nil {
		return err
	}
	if sc.Secret == "" {
		sc.Secret = []string{"secret", "s&<>\"'", "пароль", " sp ace "}[tid%4]
	}
	run := &sessRun{cnt: map[string]int{}, w: w, tid: tid}
	run.cond = sync.NewCond(&run.mu)
	curRun.Store(run)
	defer curRun.Store(nil)
	w.Emit(tr.Rec{"ev": "reset", "tid": tid})
	server, err := srv.Listen()
	if err != nil {
		return err
	}
	defer server.Close()
	router := xmpp.NewRouter()
	var nhandled int32
	router.NewRoute().HandlerFunc(func(s xmpp.Sender, p stanza.Packet) {
		id := ""
		switch pp := p.(type) {
		case stanza.Message:
			id = pp.Id
		case stanza.Presence:
			id = pp.Id
		case *stanza.IQ:
			id = pp.Id
		default:
			return
		}
		w.Emit(tr.Rec{"ev": "hb", "tag": id})
		time.Sleep(300 * time.Microsecond) // long enough for a concurrently routed neighbour to overtake
		w.Emit(tr.Rec{"ev": "he", "tag": id})
		atomic.AddInt32(&nhandled, 1)
	})
	opts := xmpp.ComponentOptions{
		TransportConfiguration: xmpp.TransportConfiguration{Address: server.Addr, Domain: "comp.localhost", ConnectTimeout: 1},
		Domain:                 "comp.localhost", Secret: sc.Secret, Name: "verif component",
	}
	comp, err := xmpp.NewComponent(opts, router, func(e error) { w.Emit(tr.Rec{"ev": "errcb"}) })
	if err != nil {
		return fmt.Errorf("NewComponent: %v", err)
	}
	comp.SetHandler(func(e xmpp.Event) error {
		w.Emit(tr.Rec{"ev": "event", "state": int(xmpp.VerifEventState(e))})
		return nil
	})
	for i, cs := range sc.Conns {
		n := i + 1
		atomic.StoreInt32(&nhandled, 0)
		w.Emit(tr.Rec{"ev": "op", "n": n, "idc": cs.Idc, "reply": cs.Reply})
		idAttr, idPlain := compID(cs.Idc, n)
		opDone := make(chan struct{})
		var up int32
		srvDone := make(chan struct{})
		var sconn *srv.Conn
		go func() {
			defer close(srvDone)
			conn, err := server.Accept(3 * time.Second)
			if err != nil {
				return
			}
			sconn = conn
			e, err := conn.Expect(2 * time.Second)
			if err != nil || e.Kind != "open" {
				return
			}
			w.Emit(tr.Rec{"ev": "cliel", "k": "open", "ns": e.Attr["xmlns"], "digestok": false, "lowerhex": false})
			hdr := "<?xml version='1.0'?><stream:stream xmlns:stream='" + srv.NSStream + "' xmlns='" + nsComp + "' from='comp.localhost'"
			if cs.Idc != "absent" {
				hdr += " id='" + idAttr + "'"
			}
			conn.Write(hdr + ">")
			e, err = conn.Expect(2 * time.Second)
			if err != nil {
				return
			}
			if e.Kind == "elem" && e.Local == "handshake" {
				sum := sha1.Sum([]byte(idPlain + sc.Secret))
				want := hex.EncodeToString(sum[:])
				got := e.Text
				w.Emit(tr.Rec{"ev": "cliel", "k": "handshake", "ns": "", "digestok": got == want,
					"lowerhex": len(got) == 40 && strings.Trim(got, "0123456789abcdef") == ""})
			} else {
				w.Emit(tr.Rec{"ev": "cliel", "k": "other", "ns": "", "digestok": false, "lowerhex": false})
			}
			w.Emit(tr.Rec{"ev": "srvrep", "v": cs.Reply})
			switch {
			case cs.Reply == "handshake":
				conn.Write("<handshake/>")
			case strings.HasPrefix(cs.Reply, "err-"):
				conn.Write("<stream:error><" + cs.Reply[4:] + " xmlns='urn:ietf:params:xml:ns:xmpp-streams'/></stream:error>")
			case cs.Reply == "other":
				conn.Write("<message from='x@y' to='comp.localhost'><body>not a handshake</body></message>")
			case cs.Reply == "malformed":
				conn.Write("<handshake")
				time.Sleep(5 * time.Millisecond)
				conn.Close()
			case strings.HasPrefix(cs.Reply, "hs-"):
				// replies that begin like the handshake element but are not one
				body := map[string]string{"hs-trunc": "<handshake>", "hs-text-close": "<handshake>ok", "hs-streamclose": "<handshake></stream:stream>",
					"hs-badend": "<handshake></handshak>", "hs-badentity": "<handshake>&nbsp;</handshake>"}[cs.Reply]
				conn.Write(body)
				time.Sleep(5 * time.Millisecond)
				conn.Close()
			case cs.Reply == "close":
				conn.Close()
			case cs.Reply == "streamclose":
				conn.Write("</stream:stream>")
			}
			<-opDone
			if atomic.LoadInt32(&up) != 1 {
				return
			}
			// established: all stanzas in one write, then wait for the handlers
			all := ""
			for j, k := range cs.Stz {
				tag := "t" + strconv.Itoa(n) + "-" + strconv.Itoa(j+1)
				w.Emit(tr.Rec{"ev": "srv", "k": k, "tag": tag})
				switch k {
				case "msg":
					all += "<message id='" + tag + "' from='peer@localhost/x' to='a@comp.localhost'><body>hi</body></message>"
				case "iqres":
					all += "<iq id='" + tag + "' type='result' from='peer@localhost/x' to='comp.localhost'/>"
				case "iqget":
					all += "<iq id='" + tag + "' type='get' from='peer@localhost/x' to='comp.localhost'><ping xmlns='urn:xmpp:ping'/></iq>"
				case "pres":
					all += "<presence id='" + tag + "' from='peer@localhost/x' to='a@comp.localhost'/>"
				}
			}
			if all != "" {
				conn.Write(all)
			}
			dl := time.Now().Add(2 * time.Second)
			for int(atomic.LoadInt32(&nhandled)) < len(cs.Stz) && time.Now().Before(dl) {
				time.Sleep(200 * time.Microsecond)
			}
		}()
		ret := make(chan error, 1)
		go func() {
			if n == 1 {
				ret <- comp.Connect()
			} else {
				ret <- comp.Resume()
			}
		}()
		out := "ok"
		select {
		case err := <-ret:
			if err != nil {
				out = "err"
			}
		case <-time.After(6 * time.Second):
			out = "hang"
		}
		w.Emit(tr.Rec{"ev": "ret", "out": out})
		if out == "ok" {
			atomic.StoreInt32(&up, 1)
		}
		close(opDone)
		select {
		case <-srvDone:
		case <-time.After(5 * time.Second):
		}
		w.Emit(tr.Rec{"ev": "quiet", "handled": int(atomic.LoadInt32(&nhandled))})
		if sconn != nil {
			sconn.Close()
		}
		if out == "hang" {
			break
		}
		if out == "ok" {
			run.waitFor(2*time.Second, func(c map[string]int) bool { return c["recv.exit"] >= 1 })
			run.mu.Lock()
			run.cnt["recv.exit"] = 0
			run.mu.Unlock()
		}
		if tp := xmpp.VerifComponentTransport(comp); tp != nil {
			run.mu.Lock()
			cc := run.conn
			run.conn = nil
			run.mu.Unlock()
			if cc != nil {
				srv.HardClose(cc)
			}
		}
	}
	w.Emit(tr.Rec{"ev": "fin"})
	return nil
}

func runComp(args []string) error {
	c, fs := parseCommon("comp", args)
	fs.Parse(args)
	if c.worker {
		return runWorker(c, compRunOne, func() error { sessInstallHooks(); return nil })
	}
	lines, err := c.loadScen()
	if err != nil {
		return err
	}
	var scens []tidScen
	for i, ln := range lines {
		scens = append(scens, tidScen{i + 1, ln})
	}
	for _, s := range scens {
		c.recordScen(s.Tid, s.Scen)
	}
	c.closeScen()
	return runMaster(c, "comp", scens, nil, 30*time.Second)
}
