---------------------------- MODULE TraceKeepalive ----------------------------
(***************************************************************************)
(* Trace monitor for C18.  Modes (cmd/driver/c18.go): "stub" - the real    *)
(* keepalive function against a stub Transport, the session ended at the   *)
(* phase chosen by the TLC behaviour of Keepalive.tla; "rate" - a real     *)
(* client, the server timestamps the whitespace it receives; "fail" - a    *)
(* real client whose writes start to fail while reads keep blocking.       *)
(* Time is judged exactly on the sound side only (never more pings than    *)
(* intervals elapsed + 1); the lower bound is tolerant.                    *)
(***************************************************************************)
EXTENDS Integers, Sequences, FiniteSets, TLC, Json, IOUtils
Trace == ndJsonDeserialize(IOEnv.VERIF_TRACE)
VL == INSTANCE VerdictLib
VARIABLES l, tid, cfg, pings, startT, quitAt, afterQuit, failed, afterFail, closes, exits, errcb, discs, cutSeen, verdicts
tvars == <<l, tid, cfg, pings, startT, quitAt, afterQuit, failed, afterFail, closes, exits, errcb, discs, cutSeen, verdicts>>
AddV(vs) == IF VL!Record(vs) THEN verdicts + Len(vs) ELSE verdicts
V(clause, sig, detail) == [prop |-> "C18", clause |-> clause, sig |-> sig, tid |-> tid, idx |-> l, detail |-> detail]
Ev(x) == l <= Len(Trace) /\ Trace[l].ev = x
E == Trace[l]
Cfg0 == [mode |-> "stub", iv |-> 1, failat |-> 0, quitafter |-> 0, phase |-> "never", ws |-> FALSE]

T_Reset == /\ Ev("reset") /\ tid' = E.tid /\ cfg' = [mode |-> E.mode, iv |-> E.iv, failat |-> E.failat, quitafter |-> E.quitafter,
                                                           phase |-> E.phase, ws |-> ("ws" \in DOMAIN E /\ E.ws)]
           /\ pings' = <<>> /\ startT' = 0 /\ quitAt' = -1 /\ afterQuit' = 0 /\ failed' = FALSE /\ afterFail' = 0 /\ closes' = 0 /\ exits' = 0
           /\ errcb' = 0 /\ discs' = 0 /\ cutSeen' = FALSE /\ l' = l + 1 /\ UNCHANGED verdicts
T_Start == /\ Ev("start") /\ startT' = E.t
           /\ l' = l + 1 /\ UNCHANGED <<tid, cfg, pings, quitAt, afterQuit, failed, afterFail, closes, exits, errcb, discs, cutSeen, verdicts>>
T_Ping == /\ Ev("ping")
          /\ pings' = Append(pings, E.t)
          /\ afterQuit' = IF quitAt >= 0 THEN afterQuit + 1 ELSE afterQuit
          /\ afterFail' = IF failed \/ (cfg.mode = "fail" /\ cutSeen) THEN afterFail + 1 ELSE afterFail
          /\ failed' = (failed \/ ~E.ok)
          /\ l' = l + 1 /\ UNCHANGED <<tid, cfg, startT, quitAt, closes, exits, errcb, discs, cutSeen, verdicts>>
T_Quit == /\ Ev("quit") /\ quitAt' = E.t
          /\ l' = l + 1 /\ UNCHANGED <<tid, cfg, pings, startT, afterQuit, failed, afterFail, closes, exits, errcb, discs, cutSeen, verdicts>>
T_Close == /\ Ev("close") /\ closes' = closes + 1
           /\ l' = l + 1 /\ UNCHANGED <<tid, cfg, pings, startT, quitAt, afterQuit, failed, afterFail, exits, errcb, discs, cutSeen, verdicts>>
T_Exit == /\ Ev("exit") /\ exits' = exits + 1
          /\ l' = l + 1 /\ UNCHANGED <<tid, cfg, pings, startT, quitAt, afterQuit, failed, afterFail, closes, errcb, discs, cutSeen, verdicts>>
T_ErrCb == /\ Ev("errcb") /\ errcb' = errcb + 1
           /\ l' = l + 1 /\ UNCHANGED <<tid, cfg, pings, startT, quitAt, afterQuit, failed, afterFail, closes, exits, discs, cutSeen, verdicts>>
T_Event == /\ Ev("event") /\ discs' = IF E.state = 0 THEN discs + 1 ELSE discs
           /\ l' = l + 1 /\ UNCHANGED <<tid, cfg, pings, startT, quitAt, afterQuit, failed, afterFail, closes, exits, errcb, cutSeen, verdicts>>
T_Cut == /\ Ev("cutev") /\ cutSeen' = TRUE
         /\ l' = l + 1 /\ UNCHANGED <<tid, cfg, pings, startT, quitAt, afterQuit, failed, afterFail, closes, exits, errcb, discs, verdicts>>

Judge(e) ==
    LET sig == cfg.mode \o ":" \o cfg.phase \o (IF cfg.ws THEN "/ws" ELSE "")
        d == [cfg |-> cfg, pings |-> pings, quitAt |-> quitAt, afterQuit |-> afterQuit, closes |-> closes, exits |-> exits, errcb |-> errcb,
              discs |-> discs, obsend |-> e.t]
        \* the window in which keepalives are due
        endT == IF quitAt >= 0 THEN quitAt ELSE IF cfg.mode = "rate" THEN e.t ELSE IF pings # <<>> THEN pings[Len(pings)] ELSE e.t
        inWin == Cardinality({i \in 1..Len(pings) : pings[i] <= endT})
        elapsed == endT - startT
        vRateHi == IF cfg.mode \in {"fail", "ackfail"} \/ inWin * cfg.iv <= elapsed + cfg.iv THEN <<>>
                   ELSE <<V("never-more-keepalives-than-intervals-elapsed", sig, d)>>
        vRateLo == IF cfg.mode \in {"fail", "ackfail"} \/ failed \/ (quitAt >= 0 /\ cfg.phase # "never") \/ 2 * (inWin + 2) * cfg.iv >= elapsed THEN <<>>
                   ELSE <<V("a-keepalive-is-sent-at-the-configured-interval", sig, d)>>
        \* stub: failure handling and end of session
        vFail == IF cfg.mode # "stub" \/ ~failed THEN <<>> ELSE
                 \* a ping that failed after the session had ended: the loss is known already, the connection need not (and, on a
                 \* transport that may carry the next session, should not) be closed by the keepalive
                 (IF closes = 1 \/ (closes = 0 /\ quitAt >= 0 /\ afterQuit >= 1 /\ afterFail = 0) THEN <<>>
                  ELSE <<V("failed-keepalive-closes-the-connection-exactly-once", IF closes = 0 THEN "not-closed" ELSE "closed-twice", d)>>) \o
                 (IF afterFail = 0 THEN <<>> ELSE <<V("no-keepalive-after-a-failed-one", sig, d)>>) \o
                 (IF exits >= 1 THEN <<>> ELSE <<V("keepalive-goroutine-ends-after-closing", sig, d)>>)
        vNoClose == IF cfg.mode # "stub" \/ failed \/ closes = 0 THEN <<>> ELSE <<V("connection-closed-only-after-a-failed-keepalive", sig, d)>>
        vQuit == IF cfg.mode \notin {"stub", "ackfail"} \/ quitAt < 0 THEN <<>> ELSE
                 (IF afterQuit <= 1 THEN <<>> ELSE <<V("no-keepalive-once-the-session-has-ended", sig, d)>>) \o
                 (IF exits >= 1 THEN <<>> ELSE <<V("keepalive-stops-with-the-session", sig, d)>>)
        \* real client whose writes fail: the library closes the connection, the loss is reported once
        vReal == IF cfg.mode # "fail" THEN <<>> ELSE
                 (IF closes >= 1 THEN <<>> ELSE <<V("unwritable-keepalive-closes-the-connection", sig, d)>>) \o
                 (IF errcb = 1 /\ discs = 1 THEN <<>> ELSE <<V("loss-after-failed-keepalive-reported-exactly-once", sig, d)>>) \o
                 (IF exits >= 1 THEN <<>> ELSE <<V("keepalive-goroutine-ends-after-closing", sig, d)>>)
    IN vRateHi \o vRateLo \o vFail \o vNoClose \o vQuit \o vReal

T_ObsEnd == /\ Ev("obsend") /\ verdicts' = AddV(Judge(E))
            /\ quitAt' = IF quitAt < 0 THEN -1 ELSE quitAt
            /\ l' = l + 1 /\ UNCHANGED <<tid, cfg, pings, startT, afterQuit, failed, afterFail, closes, exits, errcb, discs, cutSeen>>
T_Crash == /\ Ev("crash") /\ verdicts' = AddV(<<V("nothing-panics", cfg.mode, [msg |-> E.msg])>>)
           /\ l' = l + 1 /\ UNCHANGED <<tid, cfg, pings, startT, quitAt, afterQuit, failed, afterFail, closes, exits, errcb, discs, cutSeen>>
\* after the observation window everything is teardown
T_Skip == /\ (Ev("fin") \/ Ev("note") \/ Ev("stopobs"))
          /\ l' = l + 1 /\ UNCHANGED <<tid, cfg, pings, startT, quitAt, afterQuit, failed, afterFail, closes, exits, errcb, discs, cutSeen, verdicts>>
T_End == /\ Ev("end") /\ PrintT(<<"VERDICTS", ToJson(VL!All)>>) /\ PrintT(<<"CONSUMED", l>>)
         /\ l' = l + 1 /\ UNCHANGED <<tid, cfg, pings, startT, quitAt, afterQuit, failed, afterFail, closes, exits, errcb, discs, cutSeen, verdicts>>
TraceInit == /\ l = 1 /\ tid = 0 /\ cfg = Cfg0 /\ pings = <<>> /\ startT = 0 /\ quitAt = -1 /\ afterQuit = 0 /\ failed = FALSE /\ afterFail = 0
             /\ closes = 0 /\ exits = 0 /\ errcb = 0 /\ discs = 0 /\ cutSeen = FALSE /\ verdicts = 0 /\ VL!InitV
TraceNext == T_Reset \/ T_Start \/ T_Ping \/ T_Quit \/ T_Close \/ T_Exit \/ T_ErrCb \/ T_Event \/ T_Cut \/ T_ObsEnd \/ T_Crash \/ T_Skip \/ T_End
TraceSpec == TraceInit /\ [][TraceNext]_tvars
=============================================================================
