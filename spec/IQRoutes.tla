------------------------------ MODULE IQRoutes ------------------------------
(***************************************************************************)
(* Pending IQ requests (client.go / component.go SendIQ,                   *)
(* router.go NewIQResultRoute and the IQ branch of Router.route).          *)
(* Processes: SendIQ callers (register, write), receivers (read the        *)
(* channel or abandon it), context goroutines (done -> remove the entry),  *)
(* the server (responses with any id), and one dispatch goroutine per      *)
(* inbound IQ whose steps are the code's: lookup, claim (delete), channel  *)
(* send, close.  Three constants select the code as it was found (D14,     *)
(* D15) or the intended design; TLC shows what each defect breaks.         *)
(***************************************************************************)
EXTENDS Integers, Sequences, FiniteSets, TLC, Json

CONSTANTS Reqs,          \* request identities (SendIQ calls)
          IdOf,          \* Reqs -> id (ids may clash)
          Ids,           \* ids the server may use in responses
          MaxResp,       \* inbound responses
          MaxSteps,      \* schedule length (for emission)
          RegisterFirst, \* TRUE: the pending entry exists before the request is written (intended); FALSE: D15
          AtomicClaim,   \* TRUE: lookup and delete in one critical section (intended); FALSE: D14
          Buffered,      \* TRUE: the result channel has room for the one value it ever carries (intended); FALSE: D14
          Emit

VARIABLES rpc,      \* Reqs -> "init" | "registered" | "written" (no entry yet, D15) | "waiting" | "got" | "abandoned"
          pending,  \* id -> request or None
          chan,     \* Reqs -> [closed, buf]  (buf: value in the channel's buffer, 0 = none)
          got,      \* Reqs -> sequence of response numbers received
          ctx,      \* Reqs -> "live" | "done" | "cleaned"
          disp,     \* sequence of dispatch records [id, pc, route]
          ordinary, \* response numbers handed to the ordinary routes
          panic,
          hist
vars == <<rpc, pending, chan, got, ctx, disp, ordinary, panic, hist>>
None == "none"
H(p, r, k, id) == [p |-> p, r |-> r, k |-> k, id |-> id]

Init == /\ rpc = [r \in Reqs |-> "init"] /\ pending = [i \in Ids |-> None]
        /\ chan = [r \in Reqs |-> [closed |-> FALSE, buf |-> 0]] /\ got = [r \in Reqs |-> <<>>]
        /\ ctx = [r \in Reqs |-> "live"] /\ disp = <<>> /\ ordinary = {} /\ panic = FALSE /\ hist = <<>>

Budget == Len(hist) < MaxSteps /\ ~panic

\* ---- SendIQ: two steps, in the order the constant says
SendBegin(r) == /\ Budget /\ rpc[r] = "init"
                /\ IF RegisterFirst
                   THEN pending' = [pending EXCEPT ![IdOf[r]] = r] /\ rpc' = [rpc EXCEPT ![r] = "waiting"]   \* registered, then written
                   ELSE rpc' = [rpc EXCEPT ![r] = "written"] /\ UNCHANGED pending                             \* written, not yet registered
                /\ hist' = Append(hist, H("sendbegin", r, 0, IdOf[r]))
                /\ UNCHANGED <<chan, got, ctx, disp, ordinary, panic>>
SendEnd(r) == /\ Budget /\ rpc[r] = "written"
              /\ pending' = [pending EXCEPT ![IdOf[r]] = r] /\ rpc' = [rpc EXCEPT ![r] = "waiting"]
              /\ hist' = Append(hist, H("sendend", r, 0, IdOf[r]))
              /\ UNCHANGED <<chan, got, ctx, disp, ordinary, panic>>

\* ---- receiver
Receive(r) == /\ Budget /\ rpc[r] = "waiting" /\ chan[r].buf # 0
              /\ got' = [got EXCEPT ![r] = Append(@, chan[r].buf)] /\ chan' = [chan EXCEPT ![r].buf = 0]
              /\ rpc' = [rpc EXCEPT ![r] = "got"]
              /\ hist' = Append(hist, H("recv", r, 0, IdOf[r]))
              /\ UNCHANGED <<pending, ctx, disp, ordinary, panic>>
Abandon(r) == /\ Budget /\ rpc[r] = "waiting"
              /\ rpc' = [rpc EXCEPT ![r] = "abandoned"]
              /\ hist' = Append(hist, H("abandon", r, 0, IdOf[r]))
              /\ UNCHANGED <<pending, chan, got, ctx, disp, ordinary, panic>>

\* ---- context goroutine
CtxDone(r) == /\ Budget /\ ctx[r] = "live" /\ rpc[r] \in {"waiting", "abandoned", "got"}
              /\ ctx' = [ctx EXCEPT ![r] = "done"]
              /\ hist' = Append(hist, H("cancel", r, 0, IdOf[r]))
              /\ UNCHANGED <<rpc, pending, chan, got, disp, ordinary, panic>>
CtxClean(r) == /\ Budget /\ ctx[r] = "done"
               /\ ctx' = [ctx EXCEPT ![r] = "cleaned"]
               /\ pending' = IF pending[IdOf[r]] = r THEN [pending EXCEPT ![IdOf[r]] = None] ELSE pending
               /\ hist' = Append(hist, H("ctxclean", r, 0, IdOf[r]))
               /\ UNCHANGED <<rpc, chan, got, disp, ordinary, panic>>

\* ---- the server sends a response with id i; a dispatch goroutine starts
Arrive(i) == /\ Budget /\ Len(disp) < MaxResp
             /\ LET el == {r \in Reqs : IdOf[r] = i /\ rpc[r] \in {"written", "waiting"} /\ ctx[r] = "live"} IN
                disp' = Append(disp, [id |-> i, pc |-> "lookup", route |-> None,
                                      \* with clashing ids a response matches several requests: nothing is promised then
                                      elig |-> IF Cardinality({r \in Reqs : IdOf[r] = i}) = 1 /\ el # {} THEN CHOOSE r \in el : TRUE ELSE None])
             /\ hist' = Append(hist, H("arrive", None, Len(disp) + 1, i))
             /\ UNCHANGED <<rpc, pending, chan, got, ctx, ordinary, panic>>

DStep(k) ==
    /\ Budget /\ k \in 1..Len(disp) /\ disp[k].pc # "done"
    /\ hist' = Append(hist, H("dstep", None, k, disp[k].id))
    /\ LET d == disp[k] IN
       CASE d.pc = "lookup" ->
              LET rt == pending[d.id] IN
              IF rt = None
              THEN /\ disp' = [disp EXCEPT ![k].pc = "done"] /\ ordinary' = ordinary \cup {k}
                   /\ UNCHANGED <<rpc, pending, chan, got, ctx, panic>>
              ELSE IF AtomicClaim
                   THEN /\ pending' = [pending EXCEPT ![d.id] = None]
                        /\ disp' = [disp EXCEPT ![k].pc = "send", ![k].route = rt]
                        /\ UNCHANGED <<rpc, chan, got, ctx, ordinary, panic>>
                   ELSE /\ disp' = [disp EXCEPT ![k].pc = "delete", ![k].route = rt]
                        /\ UNCHANGED <<rpc, pending, chan, got, ctx, ordinary, panic>>
         [] d.pc = "delete" ->
              /\ pending' = [pending EXCEPT ![d.id] = None]
              /\ disp' = [disp EXCEPT ![k].pc = "send"]
              /\ UNCHANGED <<rpc, chan, got, ctx, ordinary, panic>>
         [] d.pc = "send" ->
              LET r == d.route IN
              IF chan[r].closed
              THEN panic' = TRUE /\ UNCHANGED <<rpc, pending, chan, got, ctx, disp, ordinary>>      \* send on closed channel
              ELSE IF Buffered
                   THEN /\ chan[r].buf = 0
                        /\ chan' = [chan EXCEPT ![r].buf = k] /\ disp' = [disp EXCEPT ![k].pc = "close"]
                        /\ UNCHANGED <<rpc, pending, got, ctx, ordinary, panic>>
                   ELSE \* unbuffered: a rendezvous with a receiver that is reading right now
                        /\ rpc[r] = "waiting"
                        /\ got' = [got EXCEPT ![r] = Append(@, k)] /\ rpc' = [rpc EXCEPT ![r] = "got"]
                        /\ disp' = [disp EXCEPT ![k].pc = "close"]
                        /\ UNCHANGED <<pending, chan, ctx, ordinary, panic>>
         [] d.pc = "close" ->
              LET r == d.route IN
              IF chan[r].closed THEN panic' = TRUE /\ UNCHANGED <<rpc, pending, chan, got, ctx, disp, ordinary>>
              ELSE /\ chan' = [chan EXCEPT ![r].closed = TRUE] /\ disp' = [disp EXCEPT ![k].pc = "done"]
                   /\ UNCHANGED <<rpc, pending, got, ctx, ordinary, panic>>

Next == \/ \E r \in Reqs : SendBegin(r) \/ SendEnd(r) \/ Receive(r) \/ Abandon(r) \/ CtxDone(r) \/ CtxClean(r)
        \/ \E i \in Ids : Arrive(i)
        \/ \E k \in 1..MaxResp : DStep(k)
Spec == Init /\ [][Next]_vars

\* ---------------------------------------------------------------- properties (C07)
C07_NoPanic == ~panic
C07_AtMostOnce == \A r \in Reqs : Len(got[r]) <= 1
C07_OnlyOwnRequest == \A r \in Reqs : \A j \in 1..Len(got[r]) : disp[got[r][j]].id = IdOf[r]
\* a response whose dispatch started after the request was written is not handed to the ordinary routes while that request still waits
C07_NotToOrdinaryWhilePending == \A k \in ordinary :
      LET r == disp[k].elig IN
      r # None => (got[r] # <<>> \/ chan[r].buf # 0 \/ ctx[r] # "live" \/ \E k2 \in 1..Len(disp) : k2 # k /\ disp[k2].route = r)
\* no dispatch goroutine is parked for ever on a channel nobody will read
C07_NoStuck == \A k \in 1..Len(disp) :
      ~(disp[k].pc = "send" /\ ~Buffered /\ rpc[disp[k].route] \in {"abandoned", "got"} /\ ~chan[disp[k].route].closed)
\* delivery removes the entry and closes the channel
C07_ClosedAndRemoved == \A k \in 1..Len(disp) : (disp[k].pc = "done" /\ disp[k].route # None) =>
      (chan[disp[k].route].closed /\ pending[disp[k].id] # disp[k].route)
\* each response is either delivered to one request or handed to the ordinary routes, never both
C07_DeliveredXorOrdinary == \A k \in ordinary : \A r \in Reqs : \A j \in 1..Len(got[r]) : got[r][j] # k

\* interleaving exploration: the schedule history is an output, not state
View == <<rpc, pending, chan, got, ctx, disp, ordinary, panic>>
Terminal == Len(hist) = MaxSteps \/ panic
EmitInv == IF Emit /\ Len(hist) = MaxSteps THEN PrintT(<<"B", ToJson([sched |-> hist])>>) ELSE TRUE
=============================================================================
