---------------------------- MODULE TraceSession ----------------------------
(***************************************************************************)
(* Trace monitor for the established client session (C05 C09 C10 C12,      *)
(* wire part of C08).  Events come from the harness (cmd/driver/sess.go):  *)
(*   reset   new scenario (sm, mode)                                       *)
(*   srv     the server is about to write element k (h, tag)               *)
(*   send    a user call starts;  call  it returned (ok)                   *)
(*   hdl     a route handler ran (tag, k)                                  *)
(*   cli     the server read an element written by the client             *)
(*   errcb / event   error callback / connection event (state, smid, inb)  *)
(*   quiet   barrier: receive loop parked, all route goroutines finished,  *)
(*           the server has read every byte the client wrote; carries the  *)
(*           public SMState (inbound, queue ids and tags)                  *)
(*   cutev   the server cut the connection;  loops / leak / crash / fin    *)
(* Between two barriers the reference model (Session.tla) is advanced over *)
(* the pending environment steps and its observable state is compared with*)
(* what was recorded.  The monitor never blocks; after a mismatch the      *)
(* model is re-synchronised to the recorded state.                         *)
(* Both readings of "retransmissions are / are not renumbered" are kept as *)
(* candidates; a step is wrong only if no candidate explains it.           *)
(***************************************************************************)
EXTENDS Integers, Sequences, FiniteSets, TLC, Json, IOUtils

Trace == ndJsonDeserialize(IOEnv.VERIF_TRACE)
VL == INSTANCE VerdictLib
S == INSTANCE Session WITH MaxSteps <- 0, MaxSend <- 0, MaxH <- 0, SrvKinds <- {}, SendKinds <- {}, SM <- FALSE,
        Renumber <- FALSE, LockStep <- FALSE, AllowCut <- FALSE, MaxResume <- 0, Emit <- FALSE,
        st <- 0, srvOut <- <<>>, rpos <- 0, tasks <- {}, cut <- FALSE, recvAlive <- FALSE, errCb <- 0, discEv <- 0, nsend <- 0, hist <- <<>>

VARIABLES l, tid, sm, mode,
          cands,     \* sequence of [st, renum]: candidate reference states
          pend,      \* environment steps since the last barrier
          oCli, oHdl, oCalls,   \* observations since the last barrier
          allHdl,    \* every handler call of the scenario (stanza kinds)
          nErr, evs, \* error callbacks / events since the cut (or scenario start)
          cutSeen, dead,
          taint10,   \* a C10 verdict was recorded in this scenario: what follows it would be its cascade
          verdicts, stats
tvars == <<l, tid, sm, mode, cands, pend, oCli, oHdl, oCalls, allHdl, nErr, evs, cutSeen, dead, taint10, verdicts, stats>>
AddV(vs) == IF VL!Record(vs) THEN verdicts + Len(vs) ELSE verdicts   \* verdicts: a counter; the records live in a TLC register

V(prop, clause, sig, detail) == [prop |-> prop, clause |-> clause, sig |-> sig, tid |-> tid, idx |-> l, detail |-> detail]
Ev(n) == l <= Len(Trace) /\ Trace[l].ev = n
E == Trace[l]

Clear(s) == [s EXCEPT !.cliOut = <<>>, !.handled = <<>>]
Cands0(m) == <<[st |-> Clear(S!St0(m)), renum |-> TRUE], [st |-> Clear(S!St0(m)), renum |-> FALSE]>>

\* advance a reference state over the pending environment steps, sequentially
RECURSIVE Settle(_, _, _, _)
Settle(s, steps, m, renum) ==
    IF steps = <<>> THEN s
    ELSE LET e == Head(steps)
             s1 == IF e.op = "srv" THEN S!RouteEffect(S!RecvEffect(s, e), e, m, renum)
                   ELSE IF e.op = "send" /\ e.ok THEN S!SendEffect(s, e.k, e.tag, m)
                   ELSE s
         IN Settle(s1, Tail(steps), m, renum)

SeqToSet(q) == {q[i] : i \in 1..Len(q)}
Answers(q) == SelectSeq(q, LAMBDA w : w.k = "a")
NonAnswers(q) == SelectSeq(q, LAMBDA w : w.k # "a")
Tags(q) == [i \in 1..Len(q) |-> q[i].tag]
Hs(q) == [i \in 1..Len(q) |-> q[i].h]
Norm(q) == [i \in 1..Len(q) |-> [k |-> q[i].k, tag |-> q[i].tag, h |-> q[i].h]]
Increasing(ids) == \A i \in 1..(Len(ids) - 1) : ids[i] < ids[i + 1]
Resync(c, qtags, inb) ==
    [c EXCEPT !.st.held = [i \in 1..Len(qtags) |-> [n |-> c.st.out - Len(qtags) + i, tag |-> qtags[i]]],
              !.st.inbound = IF inb >= 0 THEN inb ELSE @,
              !.st.cliOut = <<>>, !.st.handled = <<>>]
\* how an acknowledgement relates to what is held (for signatures)
AckShape(c, h) == LET hd == c.st.held IN
    IF hd = <<>> THEN "nothing-held"
    ELSE IF \A i \in 1..Len(hd) : hd[i].n <= h THEN "covers-all"
    ELSE IF \A i \in 1..Len(hd) : hd[i].n > h THEN "covers-none"
    ELSE "covers-some"
PendSig == IF pend = <<>> THEN "none"
           ELSE LET e == pend[Len(pend)] IN
                IF e.op = "srv" THEN "srv-" \o e.k ELSE "send-" \o e.via \o "-" \o e.k

T_Reset == /\ Ev("reset")
           /\ tid' = E.tid /\ sm' = E.sm /\ mode' = E.mode
           /\ cands' = Cands0(E.sm) /\ pend' = <<>> /\ oCli' = <<>> /\ oHdl' = <<>> /\ oCalls' = <<>> /\ allHdl' = <<>>
           /\ nErr' = 0 /\ evs' = <<>> /\ cutSeen' = FALSE /\ dead' = FALSE /\ taint10' = FALSE
           /\ l' = l + 1 /\ UNCHANGED verdicts /\ stats' = [stats EXCEPT !.scen = @ + 1]

T_Srv == /\ Ev("srv")
         /\ pend' = Append(pend, [op |-> "srv", k |-> E.k, h |-> E.h, tag |-> E.tag, via |-> "", ok |-> TRUE])
         /\ l' = l + 1 /\ UNCHANGED <<tid, sm, mode, cands, oCli, oHdl, oCalls, allHdl, nErr, evs, cutSeen, dead, taint10, verdicts, stats>>

T_Send == /\ Ev("send")   \* call started; its result arrives with the call event
          /\ l' = l + 1 /\ UNCHANGED <<tid, sm, mode, cands, pend, oCli, oHdl, oCalls, allHdl, nErr, evs, cutSeen, dead, taint10, verdicts, stats>>

T_Call == /\ Ev("call")
          /\ pend' = Append(pend, [op |-> "send", k |-> E.k, h |-> 0, tag |-> E.tag, via |-> E.via, ok |-> E.ok])
          /\ oCalls' = Append(oCalls, [tag |-> E.tag, ok |-> E.ok])
          /\ l' = l + 1 /\ UNCHANGED <<tid, sm, mode, cands, oCli, oHdl, allHdl, nErr, evs, cutSeen, dead, taint10, verdicts, stats>>

T_Hdl == /\ Ev("hdl")
         /\ IF E.k \in {"msg", "pres", "iq"}
            THEN /\ oHdl' = Append(oHdl, E.tag) /\ allHdl' = Append(allHdl, E.tag)
                 /\ verdicts' = IF E.tag \in SeqToSet(allHdl)
                                THEN AddV(<<V("C05", "handed-to-router-at-most-once", "dup", [tag |-> E.tag])>>) ELSE verdicts
            ELSE UNCHANGED <<oHdl, allHdl, verdicts>>
         /\ l' = l + 1 /\ UNCHANGED <<tid, sm, mode, cands, pend, oCli, oCalls, nErr, evs, cutSeen, dead, taint10, stats>>

T_Cli == /\ Ev("cli")
         /\ oCli' = IF E.k \in {"stz", "a", "r", "iqerr", "other"} THEN Append(oCli, [k |-> E.k, tag |-> E.tag, h |-> E.h]) ELSE oCli
         /\ l' = l + 1 /\ UNCHANGED <<tid, sm, mode, cands, pend, oHdl, oCalls, allHdl, nErr, evs, cutSeen, dead, taint10, verdicts, stats>>

T_ErrCb == /\ Ev("errcb")
           /\ nErr' = nErr + 1
           /\ verdicts' = IF cutSeen \/ dead THEN verdicts
                          ELSE AddV(<<V("C12", "no-error-callback-without-a-loss", PendSig, [pending |-> pend])>>)
           /\ l' = l + 1 /\ UNCHANGED <<tid, sm, mode, cands, pend, oCli, oHdl, oCalls, allHdl, evs, cutSeen, dead, taint10, stats>>

T_Event == /\ Ev("event")
           /\ evs' = Append(evs, [state |-> E.state, smid |-> E.smid, inbound |-> E.inbound, aftercut |-> cutSeen])
           /\ l' = l + 1 /\ UNCHANGED <<tid, sm, mode, cands, pend, oCli, oHdl, oCalls, allHdl, nErr, cutSeen, dead, taint10, verdicts, stats>>

T_Cut == /\ Ev("cutev")
         /\ cutSeen' = TRUE /\ nErr' = 0
         /\ l' = l + 1 /\ UNCHANGED <<tid, sm, mode, cands, pend, oCli, oHdl, oCalls, allHdl, evs, dead, taint10, verdicts, stats>>

(* ---- the barrier: compare the reference with the recording -------------------------------- *)
JudgeBarrier(e) ==
    LET new    == [i \in 1..Len(cands) |-> [st |-> Settle(cands[i].st, pend, sm, cands[i].renum), renum |-> cands[i].renum]]
        ref    == new[1].st                          \* inbound / handled / answers do not depend on the reading
        expH   == ref.handled
        obsA   == Answers(oCli)
        expA   == Answers(ref.cliOut)
        obsN   == Norm(NonAnswers(oCli))
        hasQ   == ~e.final
        qtags  == IF hasQ THEN e.qtags ELSE <<>>
        qtagsF == e.qtags
        okc(c) == /\ Norm(NonAnswers(c.st.cliOut)) = obsN
                  /\ (hasQ /\ sm) => Tags(c.st.held) = qtags
        good   == SelectSeq(new, okc)
        anyAck == \E i \in 1..Len(pend) : pend[i].op = "srv" /\ pend[i].k = "a"
        lastAck == IF anyAck THEN pend[CHOOSE i \in 1..Len(pend) : pend[i].op = "srv" /\ pend[i].k = "a" /\ \A j \in (i + 1)..Len(pend) : ~(pend[j].op = "srv" /\ pend[j].k = "a")] ELSE [h |-> 0]
        d      == [pending |-> pend, obsCli |-> oCli, expCli |-> ref.cliOut, obsHandled |-> oHdl, expHandled |-> expH,
                   inb |-> IF hasQ THEN e.inb ELSE -1, expInb |-> ref.inbound,
                   qtags |-> qtags, expHeldRenumber |-> Tags(new[1].st.held), expHeldKeep |-> Tags(new[Len(new)].st.held)]
        \* C05: every pending stanza reached a handler (bag equality; order is not asserted for a client)
        v05a   == IF \A t \in SeqToSet(expH) \cup SeqToSet(oHdl) :
                        Cardinality({i \in 1..Len(expH) : expH[i] = t}) = Cardinality({i \in 1..Len(oHdl) : oHdl[i] = t})
                  THEN <<>>
                  ELSE <<V("C05", IF \E t \in SeqToSet(expH) : t \notin SeqToSet(oHdl) THEN "every-stanza-reaches-the-router"
                                  ELSE "nothing-but-received-stanzas-is-routed", PendSig, d)>>
        v05b   == IF Len(obsA) = Len(expA) THEN <<>>
                  ELSE <<V("C05", "every-ack-request-is-answered-once", PendSig, d)>>
        \* C09: the answers carry the stanza count; the public counter agrees
        v09a   == IF Len(obsA) # Len(expA) \/ Hs(obsA) = Hs(expA) THEN <<>>
                  ELSE <<V("C09", "answer-h-equals-stanzas-received", PendSig, d)>>
        v09b   == IF ~hasQ \/ e.inb = ref.inbound THEN <<>>
                  ELSE <<V("C09", "inbound-counts-stanzas-only", PendSig, d)>>
        \* C10 / C08: what else the client wrote, and what it still holds
        wrong10 == good = <<>>
        v10    == IF ~wrong10 THEN <<>>
                  ELSE IF \A i \in 1..Len(new) : Norm(NonAnswers(new[i].st.cliOut)) # obsN
                       THEN IF anyAck
                            THEN <<V("C10", "ack-discards-acked-and-retransmits-rest-in-order-then-r", AckShape(cands[1], lastAck.h), d)>>
                            ELSE <<V("C08", "each-send-is-on-the-wire-whole-and-once", PendSig, d)>>
                       ELSE <<V("C10", IF anyAck THEN "ack-discards-exactly-the-acked" ELSE "accepted-stanzas-held-nonzas-never",
                                IF anyAck THEN AckShape(cands[1], lastAck.h) ELSE PendSig, d)>>
        v10i   == IF ~hasQ \/ Increasing(e.qids) THEN <<>> ELSE <<V("C10", "held-entries-numbered-increasing", PendSig, d)>>
        next   == IF wrong10 \/ v09b # <<>>
                  THEN [i \in 1..Len(new) |-> Resync(new[i], qtags, IF hasQ THEN e.inb ELSE -1)]
                  ELSE [i \in 1..Len(good) |-> [good[i] EXCEPT !.st.cliOut = <<>>, !.st.handled = <<>>]]
        \* when the connection is lost everything accepted and not acknowledged is still held (a send that failed may be too)
        nfailed == Cardinality({i \in 1..Len(pend) : pend[i].op = "send" /\ ~pend[i].ok})
        okf(c)  == /\ Len(Tags(c.st.held)) <= Len(qtagsF) /\ SubSeq(qtagsF, 1, Len(c.st.held)) = Tags(c.st.held)
                   /\ Len(qtagsF) <= Len(c.st.held) + nfailed
        v10f   == IF ~sm \/ ~e.hasq \/ \E i \in 1..Len(new) : okf(new[i]) THEN <<>>
                  ELSE <<V("C10", "accepted-stanzas-stay-held-when-the-connection-is-lost", PendSig, [d EXCEPT !.qtags = qtagsF])>>
        c10    == IF taint10 THEN <<>> ELSE v10 \o v10i
        \* once the connection is lost, what the client still tried to write may be gone: only routing is judged
        \* C12 states the same for the stanzas completely received before a cut
        v12a   == IF v05a = <<>> \/ ~(\E t \in SeqToSet(expH) : t \notin SeqToSet(oHdl)) THEN <<>>
                  ELSE <<V("C12", "stanzas-completely-received-before-the-cut-are-still-routed", PendSig, d)>>
        vs     == IF cutSeen THEN v05a \o v12a \o (IF taint10 THEN <<>> ELSE v10f) ELSE v05a \o v05b \o v09a \o v09b \o c10
    IN [vs |-> IF dead THEN <<>> ELSE vs, cands |-> next, ref |-> ref, c10 |-> (~cutSeen /\ c10 # <<>>)]

JudgeCut(e, ref) ==
    LET after == SelectSeq(evs, LAMBDA x : x.aftercut)
        disc  == SelectSeq(after, LAMBDA x : x.state = 0)
        d     == [errcb |-> nErr, events |-> after, expInbound |-> ref.inbound, sm |-> sm]
        v1 == IF nErr = 1 THEN <<>> ELSE <<V("C12", "exactly-one-error-callback", IF nErr = 0 THEN "none" ELSE "several", d)>>
        v2 == IF Len(disc) = 1 THEN <<>> ELSE <<V("C12", "exactly-one-disconnected-event", IF Len(disc) = 0 THEN "none" ELSE "several", d)>>
        v3 == IF Len(disc) # 1 \/ ~sm \/ (disc[1].smid = "smid-1" /\ disc[1].inbound = ref.inbound) THEN <<>>
              ELSE <<V("C12", "disconnected-event-carries-sm-state", "smstate", d)>>
    IN v1 \o v2 \o v3

T_Quiet == /\ Ev("quiet")
           /\ LET j == JudgeBarrier(E) IN
              /\ verdicts' = AddV(j.vs \o (IF E.final /\ ~dead THEN JudgeCut(E, j.ref) ELSE <<>>))
              /\ cands' = j.cands
              /\ taint10' = (taint10 \/ j.c10)
           /\ pend' = <<>> /\ oCli' = <<>> /\ oHdl' = <<>> /\ oCalls' = <<>>
           /\ stats' = [stats EXCEPT !.barriers = @ + 1]
           /\ l' = l + 1 /\ UNCHANGED <<tid, sm, mode, allHdl, nErr, evs, cutSeen, dead>>

\* the connection is lost in the middle of a history and the application resumes the session
T_LostEv == /\ Ev("lostev")
            /\ cutSeen' = TRUE /\ nErr' = 0
            /\ l' = l + 1 /\ UNCHANGED <<tid, sm, mode, cands, pend, oCli, oHdl, oCalls, allHdl, evs, dead, taint10, verdicts, stats>>
T_Resumed == /\ Ev("resumed")
             /\ verdicts' = IF dead THEN verdicts ELSE AddV(JudgeCut(E, cands[1].st))
             \* the h of <resumed/> may be ignored or treated as an acknowledgement (retransmission then follows on the new connection)
             /\ cands' = [i \in 1..Len(cands) |-> [cands[i] EXCEPT !.st.cliOut = <<>>, !.st.handled = <<>>]] \o
                          [i \in 1..Len(cands) |-> [st |-> S!AckEffect([cands[i].st EXCEPT !.cliOut = <<>>, !.handled = <<>>], E.h, cands[i].renum),
                                                     renum |-> cands[i].renum]]
             /\ cutSeen' = FALSE /\ nErr' = 0 /\ evs' = <<>> /\ pend' = <<>> /\ oCli' = <<>> /\ oHdl' = <<>> /\ oCalls' = <<>>
             /\ l' = l + 1 /\ UNCHANGED <<tid, sm, mode, allHdl, dead, taint10, stats>>

\* the resumption was refused: a fresh session was bound and stream management enabled again
T_Rebound == /\ Ev("rebound")
             /\ verdicts' = IF dead THEN verdicts ELSE AddV(JudgeCut(E, cands[1].st))
             /\ cands' = [i \in 1..Len(cands) |-> [st |-> S!Fresh, renum |-> cands[i].renum]]
             /\ cutSeen' = FALSE /\ nErr' = 0 /\ evs' = <<>> /\ pend' = <<>> /\ oCli' = <<>> /\ oHdl' = <<>> /\ oCalls' = <<>>
             /\ l' = l + 1 /\ UNCHANGED <<tid, sm, mode, allHdl, dead, taint10, stats>>

T_Loops == /\ Ev("loops")
           /\ verdicts' = IF dead THEN verdicts ELSE AddV(
                 (IF E.recvexit >= 1 THEN <<>> ELSE <<V("C12", "receive-loop-stops", "recv", [loops |-> E])>>) \o
                 (IF E.kaexit >= E.kastart THEN <<>> ELSE <<V("C12", "keepalive-stops", "keepalive", [loops |-> E])>>))
           /\ l' = l + 1 /\ UNCHANGED <<tid, sm, mode, cands, pend, oCli, oHdl, oCalls, allHdl, nErr, evs, cutSeen, dead, taint10, stats>>

T_Leak == /\ Ev("leak")
          /\ verdicts' = IF E.n = 0 \/ dead THEN verdicts ELSE AddV(<<V("C12", "no-goroutine-left-behind", "leak", [n |-> E.n, where |-> E.where])>>)
          /\ l' = l + 1 /\ UNCHANGED <<tid, sm, mode, cands, pend, oCli, oHdl, oCalls, allHdl, nErr, evs, cutSeen, dead, taint10, stats>>

T_Crash == /\ Ev("crash")
           /\ verdicts' = AddV(<<V(IF cutSeen THEN "C12" ELSE "C05", "nothing-panics", PendSig, [msg |-> E.msg, pending |-> pend])>>)
           /\ dead' = TRUE
           /\ l' = l + 1 /\ UNCHANGED <<tid, sm, mode, cands, pend, oCli, oHdl, oCalls, allHdl, nErr, evs, cutSeen, taint10, stats>>

\* what happened to the same client object before the judged session is not judged
T_Pre == /\ (Ev("prebegin") \/ Ev("preend"))
         /\ dead' = Ev("prebegin") /\ nErr' = 0 /\ evs' = <<>>
         /\ l' = l + 1 /\ UNCHANGED <<tid, sm, mode, cands, pend, oCli, oHdl, oCalls, allHdl, cutSeen, taint10, verdicts, stats>>

T_Skip == /\ (Ev("fin") \/ Ev("note"))
          /\ l' = l + 1 /\ UNCHANGED <<tid, sm, mode, cands, pend, oCli, oHdl, oCalls, allHdl, nErr, evs, cutSeen, dead, taint10, verdicts, stats>>

T_End == /\ Ev("end")
         /\ PrintT(<<"VERDICTS", ToJson(VL!All)>>)
         /\ PrintT(<<"STATS", ToJson(stats)>>)
         /\ PrintT(<<"CONSUMED", l>>)
         /\ l' = l + 1 /\ UNCHANGED <<tid, sm, mode, cands, pend, oCli, oHdl, oCalls, allHdl, nErr, evs, cutSeen, dead, taint10, verdicts, stats>>

TraceInit == /\ l = 1 /\ tid = 0 /\ sm = FALSE /\ mode = "lock" /\ cands = Cands0(FALSE) /\ pend = <<>> /\ oCli = <<>> /\ oHdl = <<>>
             /\ oCalls = <<>> /\ allHdl = <<>> /\ nErr = 0 /\ evs = <<>> /\ cutSeen = FALSE /\ dead = FALSE /\ taint10 = FALSE /\ verdicts = 0 /\ VL!InitV
             /\ stats = [scen |-> 0, barriers |-> 0]
TraceNext == T_Reset \/ T_Pre \/ T_LostEv \/ T_Resumed \/ T_Rebound \/ T_Srv \/ T_Send \/ T_Call \/ T_Hdl \/ T_Cli \/ T_ErrCb \/ T_Event \/ T_Cut \/ T_Quiet \/ T_Loops
             \/ T_Leak \/ T_Crash \/ T_Skip \/ T_End
TraceSpec == TraceInit /\ [][TraceNext]_tvars
=============================================================================
