-------------------------- MODULE ComponentSession --------------------------
(***************************************************************************)
(* XEP-0114 component connection (component.go Connect/Resume, handshake,  *)
(* recv) - intended behaviour for C16 and the component clause of C05.     *)
(* Stages of one connection: the component opens the stream, the server    *)
(* answers with a header carrying a stream id (any attribute-legal text),  *)
(* the component writes <handshake>H(id . secret)</handshake> (H = lower   *)
(* case hex SHA-1, an uninterpreted operator here: the reference value is  *)
(* computed by the harness), the server replies.  Established iff the      *)
(* reply is <handshake/>; then stanzas are routed inline, in order.        *)
(* The Component object is reused for later connections.                   *)
(***************************************************************************)
EXTENDS Integers, Sequences, FiniteSets, TLC, Json

CONSTANTS IdClasses, Replies, MaxConns, MaxStz, StzKinds, Emit
VARIABLES pc, n, idc, state, out, sent, handled, hist
vars == <<pc, n, idc, state, out, sent, handled, hist>>

Init == /\ pc = "header" /\ n = 1 /\ idc = "" /\ state = "disconnected" /\ out = "run" /\ sent = <<>> /\ handled = <<>>
        /\ hist = <<[idc |-> "", reply |-> "", stz |-> <<>>]>>

\* the server sends the stream header with an id of class c; the component answers with the digest
Header(c) == /\ pc = "header" /\ idc' = c /\ pc' = "reply"
             /\ hist' = [hist EXCEPT ![n].idc = c]
             /\ UNCHANGED <<n, state, out, sent, handled>>
\* the server's reply to the handshake
Reply(r) == /\ pc = "reply"
            /\ IF r = "handshake" THEN state' = "established" /\ out' = "ok" /\ pc' = "session"
                                  ELSE state' = "failed" /\ out' = "err" /\ pc' = "done"
            /\ hist' = [hist EXCEPT ![n].reply = r]
            /\ UNCHANGED <<n, idc, sent, handled>>
\* established: the server sends a stanza, the receive loop routes it before reading the next one
Deliver(k) == /\ pc = "session" /\ Len(sent) < MaxStz
              /\ sent' = Append(sent, k) /\ handled' = Append(handled, k)
              /\ hist' = [hist EXCEPT ![n].stz = Append(@, k)]
              /\ UNCHANGED <<pc, n, idc, state, out>>
Lose == /\ pc = "session" /\ pc' = "done" /\ state' = "disconnected" /\ UNCHANGED <<n, idc, out, sent, handled, hist>>
Again == /\ pc = "done" /\ n < MaxConns
         /\ n' = n + 1 /\ pc' = "header" /\ out' = "run" /\ sent' = <<>> /\ handled' = <<>>
         /\ hist' = Append(hist, [idc |-> "", reply |-> "", stz |-> <<>>])
         /\ UNCHANGED <<idc, state>>
Next == (\E c \in IdClasses : Header(c)) \/ (\E r \in Replies : Reply(r)) \/ (\E k \in StzKinds : Deliver(k)) \/ Lose \/ Again
Spec == Init /\ [][Next]_vars

C16_EstablishedIffHandshake == /\ (pc \in {"session", "done"}) => ((out = "ok") <=> (hist[n].reply = "handshake"))
                               /\ (state = "established") => (out = "ok" /\ pc = "session")
C16_NothingRoutedUnlessEstablished == (hist[n].reply # "handshake") => handled = <<>>
C05_ComponentInOrder == handled = sent
Terminal == pc = "done" /\ n = MaxConns
EmitInv == IF Emit /\ Terminal THEN PrintT(<<"B", ToJson([conns |-> hist])>>) ELSE TRUE
=============================================================================
