---- MODULE MC_Router ----
EXTENDS Router
NamesDef == {"-", "message", "iq", "presence"}
TypesQuick == {{"*"}, {"normal"}, {"get"}, {"set", "result"}}
TypesFull == {{"*"}, {"normal"}, {"chat"}, {"get"}, {"set", "result"}, {"error"}, {"unavailable", "get"}}
NsQuick == {{"*"}, {"A"}}
NsFull == {{"*"}, {"A"}, {"A", "B"}}
AddrQuick == {"both", "nofrom"}
AddrFull == {"both", "nofrom", "noto", "none"}
\* history mode: a few packets of every kind, small matcher alphabet
HPacketsDef == { [k |-> "message", type |-> "", pns |-> "-", addr |-> "both"], [k |-> "presence", type |-> "", pns |-> "-", addr |-> "both"],
                 [k |-> "iq", type |-> "get", pns |-> "A", addr |-> "both"], [k |-> "iq", type |-> "result", pns |-> "A", addr |-> "both"] }
HNames == {"-", "presence", "iq"}
HTypes == {{"*"}, {"normal"}, {"get"}}
HNs == {{"*"}, {"A"}}
====
