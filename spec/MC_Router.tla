---- MODULE MC_Router ----
EXTENDS Router
NamesDef == {"-", "message", "iq", "presence"}
TypesQuick == {{"*"}, {"normal"}, {"get"}, {"set", "result"}}
TypesFull == {{"*"}, {"normal"}, {"chat"}, {"get"}, {"set", "result"}, {"error"}, {"unavailable", "get"}}
NsQuick == {{"*"}, {"A"}}
NsFull == {{"*"}, {"A"}, {"A", "B"}}
AddrQuick == {"both", "nofrom"}
AddrFull == {"both", "nofrom", "noto", "none"}
====
