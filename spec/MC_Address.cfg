SPECIFICATION Spec
CONSTANTS
  Emit = TRUE
INVARIANTS C20_ComponentsRefuseWs C20_ClientsGetWs C20_DefaultOnlyWhenNone EmitInv
CHECK_DEADLOCK FALSE
