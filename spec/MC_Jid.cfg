SPECIFICATION Spec
CONSTANTS
  Classes = {"a", "at", "sl", "sp", "bad"}
  MaxLen = 5
  Emit = TRUE
INVARIANTS C15_FullRoundTrip C15_BareRoundTrip C15_RejectsMalformed C15_PartsShape EmitInv
CHECK_DEADLOCK FALSE
