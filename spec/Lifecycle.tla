------------------------------ MODULE Lifecycle ------------------------------
(***************************************************************************)
(* A Client supervised by a StreamManager (stream_manager.go Run / resume /*)
(* Stop, client.go Connect / Resume / recv / keepalive, the goroutine that *)
(* connect() spawns after a failed negotiation) - intended behaviour, C13. *)
(*                                                                         *)
(* Implementation-shaped: the reconnect loop runs INSIDE the goroutine     *)
(* that detected the loss (the receive loop calls the event handler, the   *)
(* handler calls StreamManager.resume); a failed attempt spawns a teardown *)
(* reader; every session has its receive loop and its keepalive; there is  *)
(* ONE transport object whose current connection all of them use.          *)
(* Five constants switch between the intended design and the code as it    *)
(* was found (DESIGN.md section 8 and 11.3: D6, D12, D27, D26, D28), so     *)
(* that TLC shows what each defect breaks; the registered configuration is  *)
(* the intended one.                                                        *)
(*                                                                         *)
(* Keepalive: the keepalive goroutine of a session must end with it.  In    *)
(* the code as found it was told to quit only when the receive loop         *)
(* RETURNED - after the Disconnected handler, i.e. the whole reconnection   *)
(* loop hosted by that receive loop.  Such a stale keepalive pings the      *)
(* transport's current connection: the dead one (the ping fails, it goes on *)
(* to close the transport: slowly, Close waits for the peer), nil after a   *)
(* failed dial (D28: crash), or the new one (harmless).  The slow close     *)
(* finally closes whatever connection the transport holds by then.          *)
(***************************************************************************)
EXTENDS Integers, Sequences, FiniteSets, TLC, Json

CONSTANTS MaxRounds,        \* losses of an established connection per behaviour
          MaxAttempts,      \* failing attempts per round
          Outcomes,         \* failing attempt outcomes the server may impose: "refuse" "reset" "transient" "auth" "authtext" "tlsalert"
                            \* (auth / authtext: <failure/> without / with a <text/> child: rejected credentials)
          Drops,            \* "abrupt" "graceful"
          SM,
          TeardownEmitsDisconnected,   \* D6:  TRUE = code as found
          GracefulCloseBlocks,         \* D12: TRUE = code as found
          DialErrorPermanent,          \* D27: TRUE = code as found
          KeepaliveOutlivesSession,    \* D26: TRUE = code as found (quit closed when the receive loop returns)
          FailedDialClearsConn,        \* D28: TRUE = code as found (t.conn = nil after a failed dial)
          MaxRestarts,                 \* how often the application stops the manager and runs it again
          StopDisarms,                 \* TRUE = a (seeded) variant in which a stopped manager is never re-armed
          GuardHeldDuringPost,         \* TRUE = a (seeded) variant: a "one reconnection at a time" guard that is still held while the
                                       \* post-connect callback runs, so that a loss reported meanwhile is dropped
          Emit

VARIABLES phase,     \* "init" | "up" | "lost" | "failed" | "stopped"
          loops,     \* number of reconnect loops running (goroutines inside StreamManager.resume)
          sessions,  \* sessions established so far
          posts,     \* PostConnect calls completed so far
          posting,   \* goroutines inside a PostConnect callback: the callback runs after the session is established (its receive
                     \* loop is already running and can report a loss) and before Connect / the reconnect loop returns
          conns,     \* connections opened by the client so far
          live,      \* number of established sessions whose receive loop is alive
          round, attempts, pendingDisc,  \* Disconnected events not yet handled
          kinds,     \* how each session was established: "bind" | "resume"
          smid,      \* the server still knows a resumable session
          runReturned,
          stale,        \* keepalive goroutines of ended sessions that are still running
          closing,      \* stale keepalives whose ping failed and that are inside transport.Close()
          connNil,      \* the transport's connection is nil (failed dial, code as found)
          panic,
          restarts,     \* Stop + Run again so far
          disarmed,     \* (variant) the manager ignores Disconnected events
          hist
vars == <<phase, loops, sessions, posts, posting, conns, live, round, attempts, pendingDisc, kinds, smid, runReturned, stale, closing, connNil, panic, restarts, disarmed, hist>>
kavars == <<stale, closing, connNil, panic, restarts, disarmed>>

Init == /\ phase = "init" /\ loops = 0 /\ sessions = 0 /\ posts = 0 /\ posting = 0 /\ conns = 0 /\ live = 0 /\ round = 1 /\ attempts = 0
        /\ pendingDisc = 0 /\ kinds = <<>> /\ smid = FALSE /\ runReturned = FALSE
        /\ stale = 0 /\ closing = 0 /\ connNil = FALSE /\ panic = FALSE /\ restarts = 0 /\ disarmed = FALSE
        /\ hist = <<[drop |-> "none", attempts |-> <<>>, resume |-> "accept", inpost |-> FALSE]>>

Established(kind) == /\ sessions' = sessions + 1 /\ posting' = posting + 1 /\ live' = live + 1 /\ UNCHANGED posts
                     /\ kinds' = Append(kinds, kind) /\ smid' = SM /\ phase' = "up"

\* Run: the first Connect
FirstConnect == /\ phase = "init" /\ conns' = conns + 1
                /\ Established("bind")
                /\ hist' = [hist EXCEPT ![round].attempts = Append(@, "ok")]
                /\ UNCHANGED <<loops, round, attempts, pendingDisc, runReturned>> /\ UNCHANGED kavars

\* the server terminates the established connection
\* (also while the post-connect callback of that very session is still running: posting > 0)
Drop(how) == /\ phase = "up" /\ round <= MaxRounds /\ loops = 0 /\ pendingDisc = 0
             /\ round' = round + 1 /\ attempts' = 0 /\ live' = live - 1
             /\ hist' = Append(hist, [drop |-> how, attempts |-> <<>>, resume |-> "accept", inpost |-> posting > 0])
             /\ IF how = "graceful" /\ GracefulCloseBlocks
                THEN phase' = "up" /\ UNCHANGED pendingDisc       \* nothing notices: the receive loop is parked for ever
                ELSE phase' = "lost" /\ pendingDisc' = pendingDisc + 1
             \* the receive loop noticed the end of the session: intended = its keepalive is told to quit before the event is reported
             /\ stale' = IF KeepaliveOutlivesSession /\ ~(how = "graceful" /\ GracefulCloseBlocks) THEN stale + 1 ELSE stale
             /\ UNCHANGED <<loops, sessions, posts, posting, conns, kinds, smid, runReturned, closing, connNil, panic, restarts, disarmed>>

\* the post-connect callback returns (and with it Connect, or the reconnect loop that established the session)
PostDone == /\ posting > 0 /\ posting' = posting - 1 /\ posts' = posts + 1
            /\ UNCHANGED <<phase, loops, sessions, conns, live, round, attempts, pendingDisc, kinds, smid, runReturned, hist>> /\ UNCHANGED kavars

\* a Disconnected event reaches the StreamManager's handler: it starts a reconnect loop in the calling goroutine
HandleDisc == /\ pendingDisc > 0 /\ phase \in {"lost", "up"}
              /\ pendingDisc' = pendingDisc - 1
              /\ loops' = IF disarmed \/ (GuardHeldDuringPost /\ posting > 0) THEN loops ELSE loops + 1
              /\ UNCHANGED <<phase, sessions, posts, posting, conns, live, round, attempts, kinds, smid, runReturned, hist>> /\ UNCHANGED kavars

\* one iteration of a reconnect loop fails; the loop backs off and tries again (or gives up on a permanent error)
AttemptFails(o) == /\ loops > 0 /\ phase = "lost" /\ attempts < MaxAttempts
                   /\ attempts' = attempts + 1
                   /\ conns' = IF o = "refuse" THEN conns ELSE conns + 1
                   /\ hist' = [hist EXCEPT ![round].attempts = Append(@, o)]
                   /\ LET perm == o \in {"auth", "authtext", "tlsalert"} \/ (o = "refuse" /\ DialErrorPermanent) IN   \* tlsalert: the server aborts the TLS handshake with an alert
                      /\ loops' = IF perm THEN loops - 1 ELSE loops
                      /\ phase' = IF perm /\ loops = 1 THEN "failed" ELSE phase
                   \* a failed negotiation leaves a teardown reader behind; in the code as found it reports a disconnection
                   /\ pendingDisc' = IF TeardownEmitsDisconnected /\ o \in {"reset", "transient"} THEN pendingDisc + 1 ELSE pendingDisc
                   /\ connNil' = (o = "refuse" /\ FailedDialClearsConn)
                   /\ UNCHANGED <<sessions, posts, posting, live, round, kinds, smid, runReturned, stale, closing, panic, restarts, disarmed>>

AttemptOK(res) == /\ loops > 0 /\ phase \in {"lost", "up"}
                  /\ conns' = conns + 1 /\ loops' = loops - 1
                  /\ Established(IF smid /\ res = "accept" THEN "resume" ELSE "bind")
                  /\ hist' = [hist EXCEPT ![round].attempts = Append(@, "ok"), ![round].resume = res]
                  /\ connNil' = FALSE
                  /\ UNCHANGED <<round, attempts, pendingDisc, runReturned, stale, closing, panic, restarts, disarmed>>

\* ---- a stale keepalive (only in the code as found)
\* its ticker fires: it pings whatever the transport holds
StalePing == /\ stale > closing /\ ~panic
             /\ IF connNil THEN panic' = TRUE /\ UNCHANGED closing                         \* nil dereference: the process is gone
                ELSE IF phase = "lost" THEN closing' = closing + 1 /\ UNCHANGED panic        \* the dead connection: ping fails, Close() begins
                ELSE UNCHANGED <<closing, panic>>                                           \* the new connection: one more whitespace
             /\ UNCHANGED <<phase, loops, sessions, posts, posting, conns, live, round, attempts, pendingDisc, kinds, smid, runReturned, stale, connNil, restarts, disarmed, hist>>
\* Close() has waited for the peer's stream end long enough: it closes the transport's CURRENT connection
StaleClose == /\ closing > 0 /\ ~panic
              /\ closing' = closing - 1
              /\ IF phase = "up" /\ ~connNil
                 THEN /\ phase' = "lost" /\ live' = live - 1 /\ pendingDisc' = pendingDisc + 1  \* the re-established session is ended - by the client itself
                      /\ stale' = stale                                                       \* (and its keepalive is stale in turn)
                 ELSE stale' = stale - 1 /\ UNCHANGED <<phase, live, pendingDisc>>
              /\ UNCHANGED <<loops, sessions, posts, posting, conns, round, attempts, kinds, smid, runReturned, connNil, panic, restarts, disarmed, hist>>
\* the receive loop that hosted the reconnection returns: only now is its keepalive told to quit
OldRecvReturns == /\ stale > closing /\ loops = 0 /\ pendingDisc = 0 /\ phase \in {"up", "failed"} /\ ~panic
                  /\ stale' = closing
                  /\ UNCHANGED <<phase, loops, sessions, posts, posting, conns, live, round, attempts, pendingDisc, kinds, smid, runReturned, closing, connNil, panic, restarts, disarmed, hist>>

\* the application stops the manager while the session is up and runs it again (same manager, same client): Run
\* returns, the old session ends, the first connection of the new Run brings up a new one
Restart(res) == /\ phase = "up" /\ loops = 0 /\ posting = 0 /\ pendingDisc = 0 /\ stale = 0 /\ restarts < MaxRestarts /\ round <= MaxRounds
                /\ restarts' = restarts + 1 /\ disarmed' = StopDisarms
                /\ round' = round + 1 /\ attempts' = 0 /\ conns' = conns + 1
                /\ sessions' = sessions + 1 /\ posting' = posting + 1 /\ UNCHANGED posts
                /\ kinds' = Append(kinds, IF smid /\ res = "accept" THEN "resume" ELSE "bind") /\ smid' = SM
                /\ hist' = Append(hist, [drop |-> "restart", attempts |-> <<"ok">>, resume |-> res, inpost |-> FALSE])
                /\ UNCHANGED <<phase, loops, live, pendingDisc, runReturned, stale, closing, connNil, panic>>

Stop == /\ loops = 0 /\ posting = 0
        /\ \/ (phase = "up" /\ pendingDisc = 0 /\ round > MaxRounds)
           \/ phase = "failed"
        /\ phase' = "stopped" /\ runReturned' = TRUE /\ live' = 0
        /\ UNCHANGED <<loops, sessions, posts, posting, conns, round, attempts, pendingDisc, kinds, smid, hist>> /\ UNCHANGED kavars

Next == PostDone \/ FirstConnect \/ (\E h \in Drops : Drop(h)) \/ HandleDisc \/ (\E o \in Outcomes : AttemptFails(o))
        \/ (\E r \in {"accept", "refuse"} : AttemptOK(r)) \/ Stop \/ StalePing \/ StaleClose \/ OldRecvReturns
        \/ (\E r \in {"accept", "refuse"} : Restart(r))
Spec == Init /\ [][Next]_vars /\ WF_vars(Next)

\* ---------------------------------------------------------------- properties (C13)
C13_AtMostOneLoop == loops <= 1
C13_OneSessionPerLoss == sessions <= round /\ ((phase = "up" /\ loops = 0 /\ pendingDisc = 0) => sessions = round)
\* a reported loss is never swallowed: once its event has been handled a reconnect loop is running (or a permanent error ended it)
C13_LossStartsALoop == (phase = "lost" /\ pendingDisc = 0) => loops > 0
C13_PostConnectOncePerSession == posts + posting = sessions
C13_AtMostOneLiveSession == live <= 1
C13_PermanentEndsLoop == phase = "failed" => loops = 0
\* ... and only a permanent error does: a refused or reset connection or a torn-down negotiation is retried
C13_OnlyPermanentErrorsEndLoop == phase = "failed" =>
      LET a == hist[round].attempts IN a # <<>> /\ a[Len(a)] \in {"auth", "authtext", "tlsalert"}
C13_StopReturnsRun == phase = "stopped" => runReturned
C13_NoPanic == ~panic
\* the keepalive of a session ends with it: none is left when the next session is up and settled
C18_KeepaliveEndsWithSession == stale = 0
\* every loss is followed by a new session unless a permanent error ends the loop
C13_LossLeadsToSession == [](phase = "lost" => <>(phase \in {"up", "failed", "stopped"}))

Terminal == phase = "stopped"
EmitInv == IF Emit /\ Terminal THEN PrintT(<<"B", ToJson([sm |-> SM, rounds |-> hist])>>) ELSE TRUE
=============================================================================
