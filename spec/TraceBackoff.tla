---------------------------- MODULE TraceBackoff ----------------------------
(* Trace monitor for C19: every duration returned by the real backoff is    *)
(* checked against Backoff!Allowed for the attempt number the reference     *)
(* state machine is in (stateful waits) or the logged n (stateless query).  *)
EXTENDS Integers, Sequences, TLC, Json, IOUtils

Trace == ndJsonDeserialize(IOEnv.VERIF_TRACE)
VL == INSTANCE VerdictLib

VARIABLES l, tid, p, attempt, lastWait, verdicts
tvars == <<l, tid, p, attempt, lastWait, verdicts>>
AddV(vs) == IF VL!Record(vs) THEN verdicts + Len(vs) ELSE verdicts   \* verdicts: a counter; the records live in a TLC register

B == INSTANCE Backoff WITH Params <- {}, Ns <- {}, MaxOps <- 0, Emit <- FALSE, d <- 0, hist <- <<>>

Verdict(clause, sig, detail) == [prop |-> "C19", clause |-> clause, sig |-> sig, tid |-> tid, idx |-> l, detail |-> detail]
Ev(n) == l <= Len(Trace) /\ Trace[l].ev = n

T_Reset == /\ Ev("reset")
           /\ tid' = Trace[l].tid /\ p' = Trace[l].p /\ attempt' = 0 /\ lastWait' = -1
           /\ l' = l + 1 /\ UNCHANGED verdicts

Judge(e, n, how) ==
    LET v0 == IF e.exact /\ ~e.panic THEN <<>> ELSE
                <<Verdict("returns-a-duration", how, [n |-> n, panic |-> e.panic, d |-> e.d])>>
        v1 == IF e.panic \/ (0 <= e.d /\ e.d <= B!Cap(p)) THEN <<>> ELSE
                <<Verdict("never-negative-never-above-cap", how, [n |-> n, d |-> e.d, cap |-> B!Cap(p)])>>
        v2 == IF e.panic \/ B!Allowed(p, n, e.d) THEN <<>> ELSE
                <<Verdict(IF p.nojitter THEN "equals-min-cap-base-factor-pow-n" ELSE "jitter-between-zero-and-delay", how,
                          [n |-> n, d |-> e.d, want |-> B!Delay(p, n), p |-> p])>>
    IN v0 \o v1 \o v2

T_Op == /\ Ev("op")
        /\ LET e == Trace[l] IN
           CASE e.op = "wait" ->
                  /\ verdicts' = AddV(Judge(e, attempt, "wait") \o
                        (IF p.nojitter /\ ~e.panic /\ lastWait >= 0 /\ e.d < lastWait
                         THEN <<Verdict("non-decreasing-in-n", "wait", [n |-> attempt, d |-> e.d, prev |-> lastWait])>> ELSE <<>>))
                  /\ attempt' = attempt + 1 /\ lastWait' = IF e.panic THEN lastWait ELSE e.d
             [] e.op = "reset" ->
                  /\ attempt' = 0 /\ lastWait' = -1 /\ UNCHANGED verdicts
             [] e.op = "query" ->
                  /\ verdicts' = AddV(Judge(e, e.n, "query"))
                  /\ UNCHANGED <<attempt, lastWait>>
        /\ l' = l + 1 /\ UNCHANGED <<tid, p>>

T_End == /\ Ev("end")
         /\ PrintT(<<"VERDICTS", ToJson(VL!All)>>)
         /\ PrintT(<<"CONSUMED", l>>)
         /\ l' = l + 1 /\ UNCHANGED <<tid, p, attempt, lastWait, verdicts>>

TraceInit == l = 1 /\ tid = 0 /\ p = [base |-> 0, factor |-> 0, cap |-> 0, nojitter |-> TRUE] /\ attempt = 0 /\ lastWait = -1 /\ verdicts = 0 /\ VL!InitV
TraceNext == T_Reset \/ T_Op \/ T_End
TraceSpec == TraceInit /\ [][TraceNext]_tvars
=============================================================================
