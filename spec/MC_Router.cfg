SPECIFICATION Spec
CONSTANTS
  Names <- NamesDef
  TypeSets <- TypesQuick
  NsSets <- NsQuick
  AddrKinds <- AddrQuick
  MaxRoutes = 2
  Emit = TRUE
  HPackets <- HPacketsDef
  MaxDisp = 0
INVARIANTS C06_AtMostOneHandler C06_ReplyOnlyIfUnhandledRequest C06_EmptyRouteCatchesAll C06_LaterRoutesIgnored C06_NormalIsMessageDefault EmitInv
CHECK_DEADLOCK FALSE
