------------------------------ MODULE TraceCodec ------------------------------
(* Trace monitor for C01: observations of the real codec for every value     *)
(* (cmd/driver/c01.go) against Codec!Enc and the round-trip laws.            *)
EXTENDS Integers, Sequences, FiniteSets, TLC, Json, IOUtils
Trace == ndJsonDeserialize(IOEnv.VERIF_TRACE)
VL == INSTANCE VerdictLib
VARIABLES l, verdicts
tvars == <<l, verdicts>>
C == INSTANCE Codec WITH Kinds <- {}, AttrSets <- {}, ErrKinds <- {}, MsgExts <- {}, PresExts <- {}, IQPayloads <- {}, SMKinds <- {}, TextClasses <- {},
        MaxExts <- 0, Emit <- FALSE, v <- 0
AddV(vs) == IF VL!Record(vs) THEN verdicts + Len(vs) ELSE verdicts
V(clause, sig, tid, detail) == [prop |-> "C01", clause |-> clause, sig |-> sig, tid |-> tid, idx |-> l, detail |-> detail]
Ev(x) == l <= Len(Trace) /\ Trace[l].ev = x
E == Trace[l]
ToSet(a) == {a[i] : i \in 1..Len(a)}

T_RT == /\ Ev("rt")
        /\ LET x == [kind |-> E.v.kind, attrs |-> ToSet(E.v.attrs), std |-> E.v.std, err |-> E.v.err, exts |-> E.v.exts, tc |-> E.v.tc]
               what == x.kind \o (IF Len(x.exts) > 0 THEN "+" \o x.exts[1] ELSE "") \o (IF x.err # "none" THEN "+err-" \o x.err ELSE "")
               d == [value |-> E.v, diff |-> E.diff, rootattrs |-> E.rootattrs, kids |-> E.kids]
               stz == x.kind \in {"message", "presence", "iq"}
               want == C!Enc(x)
               v1 == IF E.marshalok /\ E.wf THEN <<>> ELSE <<V("serialisation-is-well-formed-xml", what \o "/" \o x.tc, E.tid, d)>>
               v2 == IF ~E.marshalok \/ E.shapeeq THEN <<>> ELSE <<V("text-never-changes-the-element-structure", what \o "/" \o x.tc, E.tid, d)>>
               v3 == IF ~E.marshalok \/ ~E.wf \/ (E.parseok /\ E.kindok) THEN <<>> ELSE <<V("serialised-value-parses-back-as-the-same-kind", what, E.tid, d)>>
               v4 == IF ~E.parseok \/ E.leafeq THEN <<>> ELSE <<V("parsed-value-equals-the-original", what, E.tid, d)>>
               v5 == IF ~E.parseok \/ ~E.leafeq \/ E.bytes2eq THEN <<>> ELSE <<V("second-serialisation-is-byte-identical", what, E.tid, d)>>
               v6 == IF ~stz \/ ~E.marshalok \/ ~E.wf \/ (E.rootattrs = want.attrs /\ E.kids = want.kids) THEN <<>> ELSE
                       <<V("element-shape-is-the-specified-one", what, E.tid, [d EXCEPT !.diff = want])>>
           IN verdicts' = AddV(v1 \o v2 \o v3 \o v4 \o v5 \o v6)
        /\ l' = l + 1
T_End == /\ Ev("end") /\ PrintT(<<"VERDICTS", ToJson(VL!All)>>) /\ PrintT(<<"CONSUMED", l>>)
         /\ l' = l + 1 /\ UNCHANGED verdicts
TraceInit == l = 1 /\ verdicts = 0 /\ VL!InitV
TraceNext == T_RT \/ T_End
TraceSpec == TraceInit /\ [][TraceNext]_tvars
=============================================================================
