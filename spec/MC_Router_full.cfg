SPECIFICATION Spec
CONSTANTS
  Names <- NamesDef
  TypeSets <- TypesFull
  NsSets <- NsFull
  AddrKinds <- AddrFull
  MaxRoutes = 2
  Emit = TRUE
  HPackets <- HPacketsDef
  MaxDisp = 0
INVARIANTS C06_AtMostOneHandler C06_ReplyOnlyIfUnhandledRequest C06_EmptyRouteCatchesAll C06_LaterRoutesIgnored C06_NormalIsMessageDefault EmitInv
CHECK_DEADLOCK FALSE
