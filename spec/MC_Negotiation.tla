---- MODULE MC_Negotiation ----
EXTENDS Negotiation
Cf(i, sm, t, cr) == [insecure |-> i, sm |-> sm, tls |-> t, cred |-> cr, ws |-> FALSE, wss |-> FALSE, skiptls |-> FALSE, sessalways |-> FALSE]
\* C03: insecure allowed or not, stream management requested or not
CfgC03 == {Cf(i, sm, "ca", "password") : i \in BOOLEAN, sm \in BOOLEAN}
\* the credential kind is not in the statement's list of configurations, but the SASL step depends on it
CfgC03tok == {Cf(TRUE, sm, "ca", "token") : sm \in BOOLEAN}
CfgC03two == {Cf(TRUE, TRUE, "ca", "password")}
\* C04: every client TLS configuration, insecure on/off
CfgC04 == {Cf(i, FALSE, t, "password") : i \in BOOLEAN, t \in {"none", "ca", "casn", "caother", "skip"}}
\* C11: stream management over clear text (the TLS path is C04's)
CfgC11 == {Cf(TRUE, TRUE, "ca", "password")}
CfgC11b == {Cf(TRUE, sm, "ca", "password") : sm \in BOOLEAN}
CfgC14 == {Cf(TRUE, FALSE, "ca", c) : c \in {"password", "token"}}
CfgC04sn == {Cf(FALSE, FALSE, "caother", "password"), Cf(FALSE, FALSE, "casn", "password"), Cf(FALSE, FALSE, "cahost", "password")}
CfgC04multi == {Cf(FALSE, FALSE, "ca", "password"), Cf(FALSE, TRUE, "ca", "password")}
\* WebSocket transport: ws: (clear) and wss: (TLS from the dial on), insecure allowed or not
CfW(i, sm, wss) == [insecure |-> i, sm |-> sm, tls |-> "none", cred |-> "password", ws |-> TRUE, wss |-> wss, skiptls |-> FALSE, sessalways |-> FALSE]
\* wss: with a client TLS configuration (the transport must not let it weaken the check against the domain)
CfgC04wssn == {[CfW(FALSE, FALSE, TRUE) EXCEPT !.tls = t] : t \in {"ca", "casn", "caother"}}
CfgC04ws == {CfW(i, FALSE, s) : i \in BOOLEAN, s \in BOOLEAN}
CfgC03ws == {CfW(TRUE, sm, FALSE) : sm \in BOOLEAN} \cup {CfW(FALSE, TRUE, TRUE)}
CfgC14ws == {[CfW(TRUE, FALSE, FALSE) EXCEPT !.cred = c] : c \in {"password", "token"}}
CfgC11ws == {CfW(TRUE, TRUE, FALSE)}
P == <<"PLAIN">>
MechPlain == {P}
MechBoth == {<<"PLAIN", "X-OAUTH2">>}
MechAll == {<<>>, <<"PLAIN">>, <<"X-OAUTH2">>, <<"SCRAM-SHA-1">>, <<"PLAIN", "X-OAUTH2">>, <<"X-OAUTH2", "PLAIN">>, <<"SCRAM-SHA-1", "PLAIN">>,
            <<"PLAIN", "PLAIN">>, <<"UNKNOWN", "X-OAUTH2", "DIGEST-MD5">>, <<"plain">>, <<"SCRAM-SHA-1", "UNKNOWN">>}
====
