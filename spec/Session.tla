------------------------------ MODULE Session ------------------------------
(***************************************************************************)
(* The established client session (client.go recv / Send / SendRaw,        *)
(* router.go route + SendMissingStz, stanza.UnAckQueue as used by the      *)
(* client) - the INTENDED design that properties C05 C09 C10 C12 describe. *)
(*                                                                         *)
(* Processes: the server (environment: writes elements, acknowledges, cuts *)
(* the connection), the receive loop (one step per packet, sequential),    *)
(* one route goroutine per received packet (client), user senders.         *)
(*                                                                         *)
(* The protocol state of the session is the record `st`; the effect of     *)
(* each code step on it is a pure operator (RecvEffect, RouteEffect,       *)
(* SendEffect) so that the model checker (all interleavings) and the trace *)
(* monitor (TraceSession.tla, barrier to barrier) share one definition.    *)
(***************************************************************************)
EXTENDS Integers, Sequences, FiniteSets, TLC, Json

CONSTANTS MaxSteps,   \* environment steps per behaviour
          MaxSend,    \* max user sends among them
          MaxH,       \* ack values the server may use: 0..MaxH
          SrvKinds,   \* element kinds the server writes (besides "a")
          SendKinds,  \* <<via, k>> pairs the user may send
          SM,         \* stream management active on the session
          Renumber,   \* TRUE: a retransmission takes a new outbound number
          LockStep,   \* TRUE: environment acts only at quiescence (history generation)
          AllowCut,
          MaxResume,  \* resumptions of the session on a new connection per behaviour
          Emit

VARIABLES st,        \* protocol state record (see St0)
          srvOut,    \* elements written by the server, in order: [k, h, tag]
          rpos,      \* number of elements consumed by the receive loop
          tasks,     \* indexes of srvOut whose route goroutine is spawned but not finished
          cut,       \* server closed the connection (after everything it wrote)
          recvAlive, errCb, discEv,
          nsend,     \* user sends performed
          hist       \* environment history (what gets replayed)

vars == <<st, srvOut, rpos, tasks, cut, recvAlive, errCb, discEv, nsend, hist>>

Stanza == {"msg", "pres", "iqget", "iqset", "iqres", "iqerr"}
IsStanza(k) == k \in Stanza
SentStanza == {"msg", "pres", "iq"}

(***************************************************************************)
(* st.inbound  stanzas received (the h the client reports)                 *)
(* st.held     unacknowledged stanzas: sequence of [n, tag], n = outbound  *)
(*             number of the (latest) transmission                         *)
(* st.out      number of stanzas transmitted on the session so far         *)
(* st.cliOut   what the client wrote: [k |-> "stz", tag, h |-> 0] |        *)
(*             [k |-> "a", tag |-> "", h] | [k |-> "r", tag |-> "", h |-> 0]*)
(* st.handled  tags handed to the router's handlers, in invocation order   *)
(* The automatic initial presence (tag "p0") is transmission number 1.     *)
(***************************************************************************)
W(k, tag, h) == [k |-> k, tag |-> tag, h |-> h]
St0(sm) == [inbound |-> 0,
            held    |-> IF sm THEN <<[n |-> 1, tag |-> "p0"]>> ELSE <<>>,
            out     |-> IF sm THEN 1 ELSE 0,
            cliOut  |-> <<W("stz", "p0", 0)>>,
            handled |-> <<>>]

\* receive loop consumes element e (client.go recv, one iteration)
RecvEffect(s, e) ==
    IF IsStanza(e.k) THEN [s EXCEPT !.inbound = @ + 1]
    ELSE IF e.k = "r" THEN [s EXCEPT !.cliOut = Append(@, W("a", "", s.inbound))]   \* answered inline, never held
    ELSE s                                                                             \* <a/>, features, ...: not counted

\* an acknowledgement <a h=N/> is processed (router.go SendMissingStz)
AckEffect(s, N, renum) ==
    LET keep == SelectSeq(s.held, LAMBDA x : x.n > N) IN
    IF keep = <<>> THEN [s EXCEPT !.held = <<>>]
    ELSE LET resent == [i \in 1..Len(keep) |-> W("stz", keep[i].tag, 0)] IN
         [s EXCEPT !.cliOut = (@ \o resent) \o <<W("r", "", 0)>>,
                   !.held = IF renum THEN [i \in 1..Len(keep) |-> [n |-> s.out + i, tag |-> keep[i].tag]] ELSE keep,
                   !.out = IF renum THEN @ + Len(keep) ELSE @]

\* the route goroutine of element e runs (router.go route)
RouteEffect(s, e, sm, renum) ==
    IF IsStanza(e.k) THEN [s EXCEPT !.handled = Append(@, e.tag)]
    ELSE IF e.k = "a" /\ sm THEN AckEffect(s, e.h, renum)
    ELSE s

\* a user call Send / SendRaw / SendIQ of kind k returns nil (client.go)
SendEffect(s, k, tag, sm) ==
    IF k \in SentStanza
    THEN [s EXCEPT !.cliOut = Append(@, W("stz", tag, 0)),
                   !.out = IF sm THEN @ + 1 ELSE @,
                   !.held = IF sm THEN Append(@, [n |-> s.out + 1, tag |-> tag]) ELSE @]
    ELSE IF k = "r" THEN [s EXCEPT !.cliOut = Append(@, W("r", "", 0))]               \* never held, never counted
    ELSE IF k = "a" THEN [s EXCEPT !.cliOut = Append(@, W("a", "", s.inbound))]
    ELSE s

\* ---------------------------------------------------------------- model
Init == /\ st = St0(SM) /\ srvOut = <<>> /\ rpos = 0 /\ tasks = {} /\ cut = FALSE
        /\ recvAlive = TRUE /\ errCb = 0 /\ discEv = 0 /\ nsend = 0 /\ hist = <<>>

Quiescent == rpos = Len(srvOut) /\ tasks = {} /\ (cut => ~recvAlive)
EnvOK == Len(hist) < MaxSteps /\ ~cut /\ (LockStep => Quiescent)
H(op, k, h, via) == [op |-> op, k |-> k, h |-> h, via |-> via]
Cnt0(seq, o) == Cardinality({i \in 1..Len(seq) : seq[i].op = o})

ServerSend(k, h) ==
    /\ EnvOK
    /\ srvOut' = Append(srvOut, [k |-> k, h |-> h, tag |-> "s" \o ToString(Len(srvOut) + 1)])
    /\ hist' = Append(hist, H("srv", k, h, ""))
    /\ UNCHANGED <<st, rpos, tasks, cut, recvAlive, errCb, discEv, nsend>>

\* the connection is lost and the session is resumed on a new one; the server reports h in <resumed/>.
\* Whether the client treats that h as an acknowledgement is left open by the properties: both are modelled.
ServerResume(h, asAck) ==
    /\ SM /\ EnvOK /\ Cnt0(hist, "resume") < MaxResume
    /\ st' = IF asAck THEN AckEffect(st, h, Renumber) ELSE st
    /\ hist' = Append(hist, H("resume", "", h, ""))
    /\ UNCHANGED <<srvOut, rpos, tasks, cut, recvAlive, errCb, discEv, nsend>>

\* ... or the server refuses the resumption (<failed/>): the client binds a fresh session and enables stream management
\* again. Nothing of the old session is left: counters restart, nothing is held (Resume() sends no initial presence).
Fresh == [inbound |-> 0, held |-> <<>>, out |-> 0, cliOut |-> <<>>, handled |-> <<>>]
ServerRefuseResume ==
    /\ SM /\ EnvOK /\ Cnt0(hist, "resume") < MaxResume
    /\ rpos = Len(srvOut) /\ tasks = {}          \* everything the old connection delivered has been dealt with
    /\ st' = Fresh
    /\ srvOut' = <<>> /\ rpos' = 0               \* a new connection, a new session: the server's output starts again
    /\ hist' = Append(hist, H("resume", "refused", 0, ""))
    /\ UNCHANGED <<tasks, cut, recvAlive, errCb, discEv, nsend>>

ServerCut ==
    /\ AllowCut /\ EnvOK
    /\ cut' = TRUE /\ hist' = Append(hist, H("cut", "", 0, ""))
    /\ UNCHANGED <<st, srvOut, rpos, tasks, recvAlive, errCb, discEv, nsend>>

UserSend(via, k) ==
    /\ EnvOK /\ nsend < MaxSend
    /\ st' = SendEffect(st, k, "c" \o ToString(nsend + 1), SM)
    /\ nsend' = nsend + 1
    /\ hist' = Append(hist, H("send", k, 0, via))
    /\ UNCHANGED <<srvOut, rpos, tasks, cut, recvAlive, errCb, discEv>>

Recv ==
    /\ recvAlive /\ rpos < Len(srvOut)
    /\ (LockStep => tasks = {})
    /\ st' = RecvEffect(st, srvOut[rpos + 1])
    /\ rpos' = rpos + 1
    /\ tasks' = tasks \cup {rpos + 1}            \* go c.router.route(c, val)
    /\ UNCHANGED <<srvOut, cut, recvAlive, errCb, discEv, nsend, hist>>

RecvErr ==   \* the read fails: one error callback, one Disconnected event, the loop ends
    /\ recvAlive /\ cut /\ rpos = Len(srvOut)
    /\ recvAlive' = FALSE /\ errCb' = errCb + 1 /\ discEv' = discEv + 1
    /\ UNCHANGED <<st, srvOut, rpos, tasks, cut, nsend, hist>>

RouteRun(i) ==
    /\ i \in tasks
    /\ st' = RouteEffect(st, srvOut[i], SM, Renumber)
    /\ tasks' = tasks \ {i}
    /\ UNCHANGED <<srvOut, rpos, cut, recvAlive, errCb, discEv, nsend, hist>>

Next == \/ \E k \in SrvKinds : ServerSend(k, 0)
        \/ \E h \in 0..MaxH : ServerSend("a", h)
        \/ ServerCut
        \/ \E h \in 0..MaxH, b \in BOOLEAN : ServerResume(h, b)
        \/ ServerRefuseResume
        \/ \E x \in SendKinds : UserSend(x[1], x[2])
        \/ Recv \/ RecvErr
        \/ \E i \in tasks : RouteRun(i)
Spec == Init /\ [][Next]_vars

\* ---------------------------------------------------------------- properties
SrvIdx(P(_)) == {i \in 1..Len(srvOut) : P(srvOut[i])}
StanzasBefore(i) == Cardinality({j \in 1..(i - 1) : IsStanza(srvOut[j].k)})
Cnt(seq, P(_)) == Cardinality({i \in 1..Len(seq) : P(seq[i])})

\* C05: every stanza reaches the handlers exactly once (at quiescence), never twice, never a phantom
C05_AtMostOnce == \A i, j \in 1..Len(st.handled) : i # j => st.handled[i] # st.handled[j]
C05_OnlyReceivedStanzas == \A i \in 1..Len(st.handled) :
      \E j \in 1..rpos : srvOut[j].tag = st.handled[i] /\ IsStanza(srvOut[j].k)
C05_RoutedExactlyOnce == Quiescent =>
      {st.handled[i] : i \in 1..Len(st.handled)} = {srvOut[j].tag : j \in SrvIdx(LAMBDA e : IsStanza(e.k))}
\* every acknowledgement request is answered
LastRefuse == IF \E i \in 1..Len(hist) : hist[i].op = "resume" /\ hist[i].k = "refused"
              THEN CHOOSE i \in 1..Len(hist) : hist[i].op = "resume" /\ hist[i].k = "refused"
                                               /\ \A j \in (i + 1)..Len(hist) : ~(hist[j].op = "resume" /\ hist[j].k = "refused")
              ELSE 0
UserAs == Cnt(SubSeq(hist, LastRefuse + 1, Len(hist)), LAMBDA e : e.op = "send" /\ e.k = "a")
C05_EveryRAnswered == Quiescent =>
      Cnt(st.cliOut, LAMBDA w : w.k = "a") - UserAs = Cnt(SubSeq(srvOut, 1, rpos), LAMBDA e : e.k = "r")

\* C09: each answer carries the number of stanzas received before its request
C09_InboundIsStanzaCount == st.inbound = StanzasBefore(rpos + 1)
C09_AnswersBounded == \A i \in 1..Len(st.cliOut) : st.cliOut[i].k = "a" => st.cliOut[i].h <= StanzasBefore(rpos + 1)

\* C10: bookkeeping of sent stanzas
C10_NonzasNeverHeld == \A i \in 1..Len(st.held) : st.held[i].tag = "p0" \/ \E j \in 1..nsend : st.held[i].tag = "c" \o ToString(j)
C10_NumbersIncreasing == \A i \in 1..(Len(st.held) - 1) : st.held[i].n < st.held[i + 1].n
C10_HeldOnlyIfSM == (~SM) => st.held = <<>>
C10_NothingHeldTwice == \A i, j \in 1..Len(st.held) : i # j => st.held[i].tag # st.held[j].tag
\* an acknowledgement discards exactly the numbers it covers, and what remains is retransmitted in order, then <r/>
C10_AckStep == [][\A i \in tasks : (RouteRun(i) /\ srvOut[i].k = "a" /\ SM) =>
                    /\ \A x \in 1..Len(st'.held) : \E y \in 1..Len(st.held) : st.held[y].tag = st'.held[x].tag /\ st.held[y].n > srvOut[i].h
                    /\ \A y \in 1..Len(st.held) : st.held[y].n > srvOut[i].h => \E x \in 1..Len(st'.held) : st'.held[x].tag = st.held[y].tag
                    /\ LET d == SubSeq(st'.cliOut, Len(st.cliOut) + 1, Len(st'.cliOut)) IN
                       IF st'.held = <<>> THEN d = <<>>
                       ELSE /\ Len(d) = Len(st'.held) + 1 /\ d[Len(d)].k = "r"
                            /\ \A x \in 1..Len(st'.held) : d[x].k = "stz" /\ d[x].tag = st'.held[x].tag]_vars

\* C12: a lost connection is reported exactly once
C12_ReportedOnce == errCb <= 1 /\ discEv <= 1 /\ (Quiescent /\ cut => errCb = 1 /\ discEv = 1)
C12_NothingDropped == (cut /\ Quiescent) => C05_RoutedExactlyOnce

Terminal == Quiescent /\ (Len(hist) = MaxSteps \/ cut)
EmitInv == IF Emit /\ Terminal THEN PrintT(<<"B", ToJson([sm |-> SM, steps |-> hist])>>) ELSE TRUE
=============================================================================
