----------------------------- MODULE TraceRouter -----------------------------
(* Trace monitor for C06: what Router.route did with (table, packet) against *)
(* Router!Result.                                                            *)
EXTENDS Integers, Sequences, FiniteSets, TLC, Json, IOUtils
Trace == ndJsonDeserialize(IOEnv.VERIF_TRACE)
VL == INSTANCE VerdictLib
VARIABLES l, verdicts
tvars == <<l, verdicts>>
AddV(vs) == IF VL!Record(vs) THEN verdicts + Len(vs) ELSE verdicts   \* verdicts: a counter; the records live in a TLC register
R == INSTANCE Router WITH Names <- {}, TypeSets <- {}, NsSets <- {}, MaxRoutes <- 0, AddrKinds <- {}, Emit <- FALSE, table <- <<>>, pkt <- 0, HPackets <- {}, MaxDisp <- 0, hist <- <<>>
Verdict(clause, sig, tid, detail) == [prop |-> "C06", clause |-> clause, sig |-> sig, tid |-> tid, idx |-> l, detail |-> detail]
Ev(n) == l <= Len(Trace) /\ Trace[l].ev = n

ToSet(a) == {a[i] : i \in 1..Len(a)}
ToTable(t) == [i \in 1..Len(t) |-> [name |-> t[i].name, types |-> ToSet(t[i].types), ns |-> ToSet(t[i].ns)]]

GoodReply(r) == /\ r.type = "error" /\ r.ideq /\ r.swapped /\ r.cond = "feature-not-implemented" /\ r.kind = "iq"

T_Route == /\ Ev("route")
           /\ LET e == Trace[l]
                  t == ToTable(e.table)
                  p == e.pkt
                  want == R!Result(t, p)
                  d == [table |-> e.table, pkt |-> p, invoked |-> e.invoked, replies |-> e.replies, want |-> want]
                  sig == p.k \o ":" \o p.type
                  v0 == IF ~e.panic THEN <<>> ELSE <<Verdict("routing-never-panics", sig, e.tid, d)>>
                  v1 == IF e.invoked = want.invoked THEN <<>> ELSE
                          <<Verdict(IF Len(e.invoked) > 1 THEN "no-other-handler-runs"
                                    ELSE IF want.invoked = <<>> THEN "no-handler-when-nothing-matches"
                                    ELSE "first-matching-route-invoked-exactly-once", sig, e.tid, d)>>
                  v2 == IF want.errorReply
                        THEN IF Len(e.replies) = 1 /\ GoodReply(e.replies[1]) THEN <<>>
                             ELSE <<Verdict("unhandled-iq-request-gets-exactly-one-feature-not-implemented", sig \o ":" \o p.addr, e.tid, d)>>
                        ELSE IF want.invoked = <<>> /\ Len(e.replies) # 0
                             THEN <<Verdict("no-reply-to-other-unmatched-packets", sig, e.tid, d)>>
                             ELSE <<>>
              IN verdicts' = IF R!Asserted(t, p) THEN AddV(v0 \o v1 \o v2) ELSE verdicts
           /\ l' = l + 1
T_End == /\ Ev("end")
         /\ PrintT(<<"VERDICTS", ToJson(VL!All)>>)
         /\ PrintT(<<"CONSUMED", l>>)
         /\ l' = l + 1 /\ UNCHANGED verdicts
TraceInit == l = 1 /\ verdicts = 0 /\ VL!InitV
TraceNext == T_Route \/ T_End
TraceSpec == TraceInit /\ [][TraceNext]_tvars
=============================================================================
