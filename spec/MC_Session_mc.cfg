SPECIFICATION Spec
CONSTANTS
  MaxSteps = 4
  MaxSend = 3
  MaxH = 3
  SrvKinds <- SrvQuick
  SendKinds <- SendQuick
  SM = TRUE
  Renumber = TRUE
  LockStep = FALSE
  AllowCut = TRUE
  Emit = FALSE
INVARIANTS C05_AtMostOnce C05_OnlyReceivedStanzas C05_RoutedExactlyOnce C05_EveryRAnswered C09_InboundIsStanzaCount C09_AnswersBounded C10_NonzasNeverHeld C10_NumbersIncreasing C10_HeldOnlyIfSM C10_NothingHeldTwice C12_ReportedOnce C12_NothingDropped EmitInv
PROPERTIES C10_AckStep
CHECK_DEADLOCK FALSE
