SPECIFICATION Spec
CONSTANTS
  Senders = {1, 2}
  PerSender = 2
  FailAts = {0, 1, 2, 3}
  SM = TRUE
  Split = FALSE
  Emit = TRUE
INVARIANTS C08_Whole C08_WireIsShuffle C08_FailedWriteReported C10_AllPushedOnce EmitInv
CHECK_DEADLOCK FALSE
