SPECIFICATION GSpec
CONSTANTS
  Tops = {"message", "presence", "iq", "features", "streamerror", "success", "failure", "enabled", "resumed", "r", "a", "failed", "handshake", "cmessage", "ciq", "unknownns", "unknownname", "smunknown", "saslunknown"}
  Fills = {"empty", "text", "known", "unknown", "same", "deep", "two"}
  MaxElems = 2
  Emit = TRUE
INVARIANTS C02_OnePacketPerTopLevelElement EmitInv
CHECK_DEADLOCK FALSE
