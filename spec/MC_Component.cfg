SPECIFICATION Spec
CONSTANTS
  IdClasses = {"plain", "escaped", "nonascii", "long", "absent"}
  Replies = {"handshake", "err-conflict", "err-host-unknown", "err-not-authorized", "other", "malformed", "close", "streamclose"}
  MaxConns = 2
  MaxStz = 2
  StzKinds = {"msg", "iqres"}
  Emit = TRUE
INVARIANTS C16_EstablishedIffHandshake C16_NothingRoutedUnlessEstablished C05_ComponentInOrder EmitInv
CHECK_DEADLOCK FALSE
