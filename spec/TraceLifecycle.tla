---------------------------- MODULE TraceLifecycle ----------------------------
(***************************************************************************)
(* Trace monitor for a Client under a StreamManager (C13).  The harness    *)
(* (cmd/driver/life.go) plays rounds: the server terminates the            *)
(* established connection (abrupt / graceful), imposes an outcome on each  *)
(* following connection attempt (refuse, reset, transient negotiation      *)
(* failure, rejected credentials, ok) and finally the application stops.   *)
(* Judged per round, from what the server and the callbacks observed.      *)
(***************************************************************************)
EXTENDS Integers, Sequences, FiniteSets, TLC, Json, IOUtils
Trace == ndJsonDeserialize(IOEnv.VERIF_TRACE)
VL == INSTANCE VerdictLib
VARIABLES l, tid, sm, tp, rd, accepts, ups, kinds, posts, hdls, sends, msgs, refusedOK, smKnown, dead, verdicts
tvars == <<l, tid, sm, tp, rd, accepts, ups, kinds, posts, hdls, sends, msgs, refusedOK, smKnown, dead, verdicts>>
AddV(vs) == IF VL!Record(vs) THEN verdicts + Len(vs) ELSE verdicts
VP(prop, clause, sig, detail) == [prop |-> prop, clause |-> clause, sig |-> sig, tid |-> tid, idx |-> l, detail |-> detail]
V(clause, sig, detail) == VP("C13", clause, sig, detail)
Ev(x) == l <= Len(Trace) /\ Trace[l].ev = x
E == Trace[l]
Cnt(q, P(_)) == Cardinality({i \in 1..Len(q) : P(q[i])})
SeqSet(q) == {q[i] : i \in 1..Len(q)}
RSig == (IF tp = "ws" THEN "ws/" ELSE "") \o rd.drop \o (IF rd.inpost THEN "-during-post-connect" ELSE "") \o ":" \o (IF rd.attempts = <<>> THEN "-" ELSE rd.attempts[1]) \o (IF Len(rd.attempts) > 1 THEN "+" ELSE "")

NewRound == /\ accepts' = <<>> /\ ups' = <<>> /\ kinds' = <<>> /\ posts' = 0 /\ hdls' = <<>> /\ sends' = <<>> /\ msgs' = <<>> /\ refusedOK' = TRUE

T_Reset == /\ Ev("reset") /\ tid' = E.tid /\ sm' = E.sm /\ tp' = E.transport /\ rd' = [i |-> 0, drop |-> "none", attempts |-> <<>>, resume |-> "accept", inpost |-> FALSE]
           /\ NewRound /\ smKnown' = FALSE /\ dead' = FALSE /\ l' = l + 1 /\ UNCHANGED verdicts
T_Round == /\ Ev("round") /\ rd' = [i |-> E.i, drop |-> E.drop, attempts |-> E.attempts, resume |-> E.resume, inpost |-> E.inpost] /\ NewRound
           /\ l' = l + 1 /\ UNCHANGED <<tid, sm, tp, smKnown, dead, verdicts>>
T_Accept == /\ Ev("accept") /\ accepts' = Append(accepts, E.outcome)
            /\ l' = l + 1 /\ UNCHANGED <<tid, sm, tp, rd, ups, kinds, posts, hdls, sends, msgs, refusedOK, smKnown, dead, verdicts>>
T_Neg == /\ Ev("neg") /\ kinds' = IF E.kind # "fail" THEN Append(kinds, E.kind) ELSE kinds
         /\ l' = l + 1 /\ UNCHANGED <<tid, sm, tp, rd, accepts, ups, posts, hdls, sends, msgs, refusedOK, smKnown, dead, verdicts>>
T_Up == /\ Ev("up") /\ ups' = Append(ups, E.n)
        /\ l' = l + 1 /\ UNCHANGED <<tid, sm, tp, rd, accepts, kinds, posts, hdls, sends, msgs, refusedOK, smKnown, dead, verdicts>>
T_Post == /\ Ev("post") /\ posts' = posts + 1
          /\ l' = l + 1 /\ UNCHANGED <<tid, sm, tp, rd, accepts, ups, kinds, hdls, sends, msgs, refusedOK, smKnown, dead, verdicts>>
T_Hdl == /\ Ev("hdl") /\ hdls' = Append(hdls, E.tag)
         /\ l' = l + 1 /\ UNCHANGED <<tid, sm, tp, rd, accepts, ups, kinds, posts, sends, msgs, refusedOK, smKnown, dead, verdicts>>
T_Send == /\ Ev("clisend") /\ sends' = Append(sends, E.n)
          /\ l' = l + 1 /\ UNCHANGED <<tid, sm, tp, rd, accepts, ups, kinds, posts, hdls, msgs, refusedOK, smKnown, dead, verdicts>>
T_Msg == /\ Ev("srvmsg") /\ msgs' = Append(msgs, E.tag)
         /\ l' = l + 1 /\ UNCHANGED <<tid, sm, tp, rd, accepts, ups, kinds, posts, hdls, sends, refusedOK, smKnown, dead, verdicts>>
T_Refused == /\ Ev("refused") /\ refusedOK' = E.timely
             /\ l' = l + 1 /\ UNCHANGED <<tid, sm, tp, rd, accepts, ups, kinds, posts, hdls, sends, msgs, smKnown, dead, verdicts>>

JudgeRound(e) ==
    LET A == rd.attempts
        hasPerm == \E i \in 1..Len(A) : A[i] \in {"auth", "authtext", "tlsalert"}
        wantUps == IF hasPerm \/ e.refusedfirst THEN 0 ELSE 1
        wantAcc == Cnt(A, LAMBDA x : x # "refuse")
        d == [round |-> rd, accepted |-> accepts, sessions |-> ups, how |-> kinds, posts |-> posts, handled |-> hdls, clientsends |-> sends]
        v1 == IF Len(ups) = wantUps THEN <<>> ELSE
                <<V(IF Len(ups) < wantUps THEN "each-termination-leads-to-a-new-session" ELSE
                    IF wantUps = 0 THEN "permanent-error-ends-the-retry-loop" ELSE "exactly-one-new-session-per-loss", RSig, d)>>
        v2 == IF Len(accepts) <= wantAcc THEN <<>> ELSE
                <<V(IF hasPerm THEN "permanent-error-ends-the-retry-loop" ELSE "no-connection-attempt-beyond-the-one-reconnect-loop", RSig, d)>>
        v3 == IF ~refusedOK THEN <<V("retries-until-the-server-accepts-connections-again", RSig, d)>> ELSE <<>>
        v4 == IF posts = Len(ups) THEN <<>> ELSE <<V("post-connect-callback-once-per-session", RSig, d)>>
        v5 == IF Len(ups) # 1 \/ wantUps # 1 THEN <<>> ELSE
              (IF \A t \in SeqSet(msgs) : t \in SeqSet(hdls) THEN <<>> ELSE <<V("client-keeps-receiving-on-the-new-connection", RSig, d)>>) \o
              (IF ups[1] \in SeqSet(sends) THEN <<>> ELSE <<V("client-keeps-sending-on-the-new-connection", RSig, d)>>)
        wantKind == IF sm /\ smKnown /\ rd.resume = "accept" THEN "resume" ELSE "bind"
        \* after Stop and a second Run the statement does not say whether the old session is resumed or a new one bound
        v6 == IF Len(ups) # 1 \/ wantUps # 1 \/ Len(kinds) # 1 \/ kinds[1] = wantKind \/ rd.drop = "restart" THEN <<>> ELSE
                <<V("resumed-when-possible-freshly-bound-otherwise", wantKind, d)>>
    IN v1 \o v2 \o v3 \o v4 \o v5 \o v6

T_Quiet == /\ Ev("quietround")
           /\ verdicts' = IF dead THEN verdicts ELSE AddV(JudgeRound(E))
           /\ smKnown' = ((sm /\ Len(ups) >= 1) \/ (smKnown /\ Len(ups) = 0))
           /\ l' = l + 1 /\ UNCHANGED <<tid, sm, tp, rd, accepts, ups, kinds, posts, hdls, sends, msgs, refusedOK, dead>>
T_RunRet == /\ Ev("runret")
            /\ verdicts' = IF E.timely \/ dead THEN verdicts ELSE AddV(<<V("stop-makes-run-return", E.when, [round |-> rd])>>)
            /\ l' = l + 1 /\ UNCHANGED <<tid, sm, tp, rd, accepts, ups, kinds, posts, hdls, sends, msgs, refusedOK, smKnown, dead>>
T_Crash == /\ Ev("crash") /\ verdicts' = AddV(<<V("nothing-panics", RSig, [msg |-> E.msg, round |-> rd])>>) /\ dead' = TRUE
           /\ l' = l + 1 /\ UNCHANGED <<tid, sm, tp, rd, accepts, ups, kinds, posts, hdls, sends, msgs, refusedOK, smKnown>>
\* C18 (shared trace): every session - also one re-established by the StreamManager - sends keepalives at the interval
T_KaObs == /\ Ev("kaobs")
           /\ verdicts' = IF dead \/ 4 * (E.pings + 1) * E.iv >= E.window THEN verdicts
                          ELSE AddV(<<VP("C18", "keepalive-sent-at-the-interval-on-every-session", IF E.n = 1 THEN "first-session" ELSE "re-established-session",
                                        [conn |-> E.n, window |-> E.window, interval |-> E.iv, pings |-> E.pings])>>)
           /\ l' = l + 1 /\ UNCHANGED <<tid, sm, tp, rd, accepts, ups, kinds, posts, hdls, sends, msgs, refusedOK, smKnown, dead>>

T_Skip == /\ (Ev("fin") \/ Ev("stopinoutage") \/ Ev("note") \/ Ev("errcb") \/ Ev("run") \/ Ev("drop") \/ Ev("stop") \/ Ev("leak") \/ Ev("resumereq") \/ Ev("ping") \/ Ev("event"))
          /\ l' = l + 1 /\ UNCHANGED <<tid, sm, tp, rd, accepts, ups, kinds, posts, hdls, sends, msgs, refusedOK, smKnown, dead, verdicts>>
T_End == /\ Ev("end") /\ PrintT(<<"VERDICTS", ToJson(VL!All)>>) /\ PrintT(<<"CONSUMED", l>>)
         /\ l' = l + 1 /\ UNCHANGED <<tid, sm, tp, rd, accepts, ups, kinds, posts, hdls, sends, msgs, refusedOK, smKnown, dead, verdicts>>
TraceInit == /\ l = 1 /\ tid = 0 /\ sm = FALSE /\ tp = "tcp" /\ rd = [i |-> 0, drop |-> "none", attempts |-> <<>>, resume |-> "accept", inpost |-> FALSE] /\ accepts = <<>> /\ ups = <<>>
             /\ kinds = <<>> /\ posts = 0 /\ hdls = <<>> /\ sends = <<>> /\ msgs = <<>> /\ refusedOK = TRUE /\ smKnown = FALSE /\ dead = FALSE
             /\ verdicts = 0 /\ VL!InitV
TraceNext == T_Reset \/ T_KaObs \/ T_Round \/ T_Accept \/ T_Neg \/ T_Up \/ T_Post \/ T_Hdl \/ T_Send \/ T_Msg \/ T_Refused \/ T_Quiet \/ T_RunRet
             \/ T_Crash \/ T_Skip \/ T_End
TraceSpec == TraceInit /\ [][TraceNext]_tvars
=============================================================================
