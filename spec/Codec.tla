-------------------------------- MODULE Codec --------------------------------
(***************************************************************************)
(* The stanza codec at the level of element shapes (stanza/message.go,     *)
(* presence.go, iq.go, error.go, node.go, registry.go, packet.go and the   *)
(* stream-management / SASL-auth / handshake elements) - what C01 needs.   *)
(* An abstract value says which addressing attributes are set, whether the *)
(* standard children are present, what the error looks like, which         *)
(* registered extensions (message, presence) or payload (iq; "node" = a    *)
(* generic unknown tree) it carries, in which order, and from which class  *)
(* of characters the text of every field is drawn.                         *)
(* Enc gives the element shape the serialiser must produce, Dec what the   *)
(* parser must read back from a shape; TLC checks Dec(Enc(v)) = v for      *)
(* every value (the model-level theorem) and emits the values; the byte    *)
(* level (escaping, struct tags of the payload types) is exercised on the  *)
(* real code and judged through the observations logged by the harness.    *)
(***************************************************************************)
EXTENDS Integers, Sequences, FiniteSets, TLC, Json

CONSTANTS Kinds, AttrSets, ErrKinds, MsgExts, PresExts, IQPayloads, SMKinds, TextClasses, MaxExts, Emit
VARIABLES v
vars == <<v>>

AttrOrder == <<"type", "id", "from", "to", "lang">>
StdKids(k) == CASE k = "message" -> <<"subject", "body", "thread">> [] k = "presence" -> <<"show", "status", "priority">> [] OTHER -> <<>>
ExtName(e) == CASE e \in {"oob", "muc"} -> "x" [] e = "rreq" -> "request" [] e \in {"rrcv", "mrcv"} -> "received" [] e = "markable" -> "markable"
                [] e = "mdisp" -> "displayed" [] e = "mack" -> "acknowledged" [] e = "nps" -> "no-permanent-store" [] e = "nostore" -> "no-store"
                [] e = "nocopy" -> "no-copy" [] e = "store" -> "store" [] e \in {"version", "discoinfo", "discoitems", "roster"} -> "query"
                [] e = "bind" -> "bind" [] e = "node" -> "thing"
                \* extensions registered by the application: same LOCAL names as the core children, another namespace; the
                \* registry is keyed by the qualified name, so is the child name here ("app:" stands for their namespaces)
                [] e = "xbody" -> "app:body" [] e = "xsubject" -> "app:subject" [] e = "xthread" -> "app:thread"
                [] e \in {"xerror", "xperror"} -> "app:error" [] e = "xshow" -> "app:show" [] e = "xstatus" -> "app:status"
                [] e = "xpriority" -> "app:priority" [] OTHER -> e
SeqOf(S, n) == UNION {[1..k -> S] : k \in 0..n}
NoDup(q) == \A i, j \in 1..Len(q) : i # j => q[i] # q[j]

Values ==
    { [kind |-> k, attrs |-> a, std |-> s, err |-> e, exts |-> x, tc |-> t] :
         k \in Kinds \cap {"message", "presence", "iq"}, a \in AttrSets, s \in BOOLEAN, e \in ErrKinds, t \in TextClasses,
         x \in SeqOf(MsgExts \cup PresExts \cup IQPayloads, MaxExts) }
WellFormed(x) ==
    /\ NoDup(x.exts)
    /\ x.kind = "message" => \A i \in 1..Len(x.exts) : x.exts[i] \in MsgExts
    /\ x.kind = "presence" => \A i \in 1..Len(x.exts) : x.exts[i] \in PresExts
    /\ x.kind = "iq" => /\ \A i \in 1..Len(x.exts) : x.exts[i] \in IQPayloads
                        /\ Len(x.exts) <= 1 /\ ~x.std               \* an IQ has exactly one payload and no standard children
Others == { [kind |-> "sm", attrs |-> {}, std |-> FALSE, err |-> "none", exts |-> <<s>>, tc |-> t] : s \in SMKinds, t \in TextClasses } \cup
          { [kind |-> k, attrs |-> {}, std |-> FALSE, err |-> "none", exts |-> <<>>, tc |-> t] : k \in Kinds \cap {"auth", "handshake"}, t \in TextClasses }

\* the shape the serialiser must produce: root name, attribute names in order, names of the direct children in order
Enc(x) == [root |-> x.kind,
           attrs |-> SelectSeq(AttrOrder, LAMBDA n : n \in x.attrs \/ (n = "type" /\ x.kind = "iq") \/ (n = "id" /\ x.kind = "iq")),
           \* iq: registered payload, error, then the generic node; message / presence: standard children, error, extensions
           kids |-> (IF x.kind = "iq" /\ x.exts # <<>> /\ x.exts[1] # "node" THEN <<ExtName(x.exts[1])>> ELSE <<>>) \o
                    (IF x.std THEN StdKids(x.kind) ELSE <<>>) \o
                    (IF x.err # "none" THEN <<"error">> ELSE <<>>) \o
                    (IF x.kind = "iq" /\ x.exts # <<>> /\ x.exts[1] = "node" THEN <<ExtName("node")>> ELSE <<>>) \o
                    (IF x.kind # "iq" THEN [i \in 1..Len(x.exts) |-> ExtName(x.exts[i])] ELSE <<>>)]
\* what the parser reads back from a shape produced for x (it dispatches children by registered name)
Dec(sh, x) == [kind |-> sh.root,
               attrs |-> {sh.attrs[i] : i \in 1..Len(sh.attrs)} \cap (x.attrs \cup {"type", "id"}),
               std |-> \A i \in 1..Len(StdKids(sh.root)) : \E j \in 1..Len(sh.kids) : sh.kids[j] = StdKids(sh.root)[i],
               err |-> \E j \in 1..Len(sh.kids) : sh.kids[j] = "error",
               nexts |-> Cardinality({j \in 1..Len(sh.kids) : sh.kids[j] \notin ({"error"} \cup {StdKids(sh.root)[i] : i \in 1..Len(StdKids(sh.root))})})]

Init == v \in {x \in Values : WellFormed(x)} \cup Others
Next == UNCHANGED v
Spec == Init /\ [][Next]_vars

C01_RoundTripShape == v.kind \in {"message", "presence", "iq"} =>
      LET d == Dec(Enc(v), v) IN
      /\ d.kind = v.kind /\ (v.attrs \subseteq d.attrs) /\ (v.std => d.std \/ StdKids(v.kind) = <<>>)
      /\ d.err = (v.err # "none") /\ d.nexts = Len(v.exts)
C01_ShapeIndependentOfText == \A t \in TextClasses : Enc([v EXCEPT !.tc = t]) = Enc(v)
EmitInv == IF Emit THEN PrintT(<<"B", ToJson([kind |-> v.kind, attrs |-> v.attrs, std |-> v.std, err |-> v.err, exts |-> v.exts, tc |-> v.tc])>>) ELSE TRUE
=============================================================================
