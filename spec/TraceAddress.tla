---------------------------- MODULE TraceAddress ----------------------------
(* Trace monitor for C20 *)
EXTENDS Integers, Sequences, TLC, Json, IOUtils
Trace == ndJsonDeserialize(IOEnv.VERIF_TRACE)
VL == INSTANCE VerdictLib
VARIABLES l, verdicts
tvars == <<l, verdicts>>
AddV(vs) == IF VL!Record(vs) THEN verdicts + Len(vs) ELSE verdicts   \* verdicts: a counter; the records live in a TLC register
A == INSTANCE Address WITH Emit <- FALSE, f <- 0
Verdict(clause, sig, tid, detail) == [prop |-> "C20", clause |-> clause, sig |-> sig, tid |-> tid, idx |-> l, detail |-> detail]
Ev(n) == l <= Len(Trace) /\ Trace[l].ev = n

T_Addr == /\ Ev("addr")
          /\ LET e == Trace[l]
                 x == e.form
                 want == A!Normalise(x)
                 d == [form |-> x, given |-> e.given, addr |-> e.addr, kind |-> e.kind, port |-> e.port, givenport |-> e.givenport]
                 v1 == IF e.kind = want.kind THEN <<>> ELSE
                         <<Verdict("scheme-selects-transport", x.scheme \o "-" \o x.who, e.tid, d)>>
                 v2 == IF want.kind # "xmpp" \/ e.kind # "xmpp" \/ e.splitok THEN <<>> ELSE
                         <<Verdict("dialled-address-is-valid-host-port", x.host, e.tid, d)>>
                 v3 == IF want.kind # "xmpp" \/ e.kind # "xmpp" \/ ~e.splitok \/ e.hosteq THEN <<>> ELSE
                         <<Verdict("keeps-the-given-host", x.host, e.tid, d)>>
                 v4 == IF want.kind # "xmpp" \/ e.kind # "xmpp" \/ ~e.splitok
                          \/ e.port = (IF x.port = "given" THEN e.givenport ELSE A!DefaultPort) THEN <<>> ELSE
                         <<Verdict(IF x.port = "given" THEN "keeps-the-explicit-port" ELSE "adds-default-port-5222", x.host, e.tid, d)>>
             IN verdicts' = AddV(v1 \o v2 \o v3 \o v4)
          /\ l' = l + 1
T_End == /\ Ev("end")
         /\ PrintT(<<"VERDICTS", ToJson(VL!All)>>)
         /\ PrintT(<<"CONSUMED", l>>)
         /\ l' = l + 1 /\ UNCHANGED verdicts
TraceInit == l = 1 /\ verdicts = 0 /\ VL!InitV
TraceNext == T_Addr \/ T_End
TraceSpec == TraceInit /\ [][TraceNext]_tvars
=============================================================================
