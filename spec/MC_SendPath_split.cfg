SPECIFICATION Spec
CONSTANTS
  Senders = {1, 2}
  PerSender = 1
  FailAts = {0}
  SM = FALSE
  Split = TRUE
  Emit = FALSE
INVARIANTS C08_Whole
CHECK_DEADLOCK FALSE
