SPECIFICATION Spec
CONSTANTS
  Params <- ParamsQuick
  Ns <- NsDef
  MaxOps = 3
  Emit = TRUE
INVARIANTS C19_Bounded C19_DelayMonotone C19_DelayIsMinCapExp EmitInv
PROPERTIES C19_WaitsNonDecreasing C19_QueryStateless
VIEW View
CHECK_DEADLOCK FALSE
