------------------------------ MODULE Keepalive ------------------------------
(***************************************************************************)
(* The keepalive goroutine (client.go keepalive): a ticker, a quit channel *)
(* closed when the session ends, Transport.Ping and - after a failed ping -*)
(* Transport.Close.  Go's select picks any ready case, so a tick that is   *)
(* ready when the quit channel closes may still be served: that race is    *)
(* modelled (TickFire / SessionEnd are independent of the select).         *)
(* C18: a ping per tick; a failed ping closes the connection exactly once  *)
(* and ends the goroutine - unless the session has ended meanwhile: then   *)
(* the loss is known and the transport may already carry the next session, *)
(* so the goroutine just ends; once the session has ended no further       *)
(* keepalive is sent (at most the one whose tick was already due).         *)
(***************************************************************************)
EXTENDS Integers, Sequences, TLC, Json
CONSTANTS MaxTicks, FailAts, QuitPhases, Emit
VARIABLES pc, tickReady, fired, consumed, pings, closes, quitClosed, pingsAfterQuit, dueAtQuit, failAt, quitPlan, skipClose, hist
vars == <<pc, tickReady, fired, consumed, pings, closes, quitClosed, pingsAfterQuit, dueAtQuit, failAt, quitPlan, skipClose, hist>>

\* quitPlan = [after |-> n, phase |-> "idle" | "attick" | "never"]: the session ends after the n-th ping
Init == /\ pc = "wait" /\ tickReady = FALSE /\ fired = 0 /\ consumed = 0 /\ pings = 0 /\ closes = 0 /\ quitClosed = FALSE
        /\ pingsAfterQuit = 0 /\ dueAtQuit = FALSE /\ failAt \in FailAts
        /\ quitPlan \in {[after |-> n, phase |-> p] : n \in 0..MaxTicks, p \in QuitPhases}
        /\ skipClose = FALSE /\ hist = <<>>

TickFire == /\ fired < MaxTicks /\ ~tickReady /\ pc # "done"
            /\ tickReady' = TRUE /\ fired' = fired + 1
            /\ UNCHANGED <<pc, consumed, pings, closes, quitClosed, pingsAfterQuit, dueAtQuit, failAt, quitPlan, skipClose, hist>>
SelectTick == /\ pc = "wait" /\ tickReady
              /\ pc' = "pinging" /\ tickReady' = FALSE /\ consumed' = consumed + 1
              /\ UNCHANGED <<fired, pings, closes, quitClosed, pingsAfterQuit, dueAtQuit, failAt, quitPlan, skipClose, hist>>
SelectQuit == /\ pc = "wait" /\ quitClosed
              /\ pc' = "done"
              /\ UNCHANGED <<tickReady, fired, consumed, pings, closes, quitClosed, pingsAfterQuit, dueAtQuit, failAt, quitPlan, skipClose, hist>>
Ping == /\ pc = "pinging"
        /\ pings' = pings + 1
        /\ pingsAfterQuit' = IF quitClosed THEN pingsAfterQuit + 1 ELSE pingsAfterQuit
        \* after a failed ping the quit channel is looked at once more before the transport is closed
        /\ pc' = IF failAt > 0 /\ pings + 1 >= failAt THEN (IF quitClosed THEN "done" ELSE "closing") ELSE "wait"
        /\ skipClose' = (skipClose \/ (failAt > 0 /\ pings + 1 >= failAt /\ quitClosed))
        /\ hist' = Append(hist, IF failAt > 0 /\ pings + 1 >= failAt THEN "pingfail" ELSE "ping")
        /\ UNCHANGED <<tickReady, fired, consumed, closes, quitClosed, dueAtQuit, failAt, quitPlan>>
CloseOnFailure == /\ pc = "closing" /\ closes' = closes + 1 /\ pc' = "done" /\ hist' = Append(hist, "close")
                  /\ UNCHANGED <<tickReady, fired, consumed, pings, quitClosed, pingsAfterQuit, dueAtQuit, failAt, quitPlan, skipClose>>
\* the session ends (the receive loop returns and closes the quit channel) at the planned point
SessionEnd == /\ ~quitClosed /\ quitPlan.phase # "never" /\ pings = quitPlan.after
              /\ (quitPlan.phase = "idle" => pc = "wait") /\ (quitPlan.phase = "attick" => pc = "pinging")
              /\ quitClosed' = TRUE /\ dueAtQuit' = (tickReady \/ pc = "pinging")
              /\ hist' = Append(hist, "quit")
              /\ UNCHANGED <<pc, tickReady, fired, consumed, pings, closes, pingsAfterQuit, failAt, quitPlan, skipClose>>
Next == TickFire \/ SelectTick \/ SelectQuit \/ Ping \/ CloseOnFailure \/ SessionEnd
Spec == Init /\ [][Next]_vars /\ WF_vars(SelectTick \/ SelectQuit \/ Ping \/ CloseOnFailure)

C18_PingPerTick == pings <= consumed /\ consumed <= pings + 1 /\ consumed <= fired
C18_FailureClosesOnce == closes <= 1 /\ (closes = 1 => failAt > 0 /\ pings >= failAt /\ ~skipClose)
                         /\ (pc = "done" /\ failAt > 0 /\ pings >= failAt /\ ~skipClose => closes = 1)
C18_NoPingAfterFailure == (failAt > 0) => pings <= failAt
\* after the session ended only a tick that was already due may still be served; with ticks far apart that is at most one
C18_NoPingAfterEnd == pingsAfterQuit <= fired /\ (pingsAfterQuit > 0 => (dueAtQuit \/ fired > consumed - pingsAfterQuit))
C18_StopsWithSession == quitClosed ~> (pc = "done")
Terminal == pc = "done" \/ (fired = MaxTicks /\ pc = "wait" /\ ~tickReady /\ ~quitClosed /\ quitPlan.phase = "never")
EmitInv == IF Emit /\ Terminal THEN PrintT(<<"B", ToJson([failat |-> failAt, quit |-> quitPlan, ticks |-> fired])>>) ELSE TRUE
View == <<pc, tickReady, fired, consumed, pings, closes, quitClosed, failAt, quitPlan, skipClose>>
=============================================================================
