---- MODULE MC_Backoff ----
EXTENDS Backoff
P(b, f, c, nj) == [base |-> b, factor |-> f, cap |-> c, nojitter |-> nj]
ParamsQuick == { P(0, 0, 0, TRUE), P(0, 0, 0, FALSE), P(25, 0, 0, TRUE), P(1, 1, 1, TRUE), P(7, 3, 500, TRUE),
                 P(7, 3, 500, FALSE), P(1000, 10, 100, TRUE), P(3, 1, 50, FALSE), P(2, 5, 8000, TRUE) }
ParamsThorough == { P(b, f, c, nj) : b \in {0, 1, 20, 999}, f \in {0, 1, 2, 7, 100}, c \in {0, 1, 19, 1000, 10000000}, nj \in BOOLEAN }
NsDef == {0, 1, 2, 3, 13, 14, 63, 64, 2147483646}
NsSmall == {0, 2, 14, 64, 2147483646}
====
