SPECIFICATION Spec
CONSTANTS
  MaxLen = 3
  MaxOps = 4
  KSet = {"neg", "zero", "one", "two", "len", "len1", "big"}
  IdSlack = 1
  PSet = {1, 2}
  Emit = TRUE
INVARIANTS C17_IdsIncreasing C17_Fifo C17_PopNIsPops C17_NothingOnEmpty EmitInv
PROPERTIES C17_PeeksPure
CHECK_DEADLOCK FALSE
