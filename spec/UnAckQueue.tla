---------------------------- MODULE UnAckQueue ----------------------------
(***************************************************************************)
(* Reference semantics of stanza.UnAckQueue (stanza/stream_management.go)  *)
(* = the FifoQueue interface comment (stanza/fifo_queue.go) made precise.  *)
(*                                                                         *)
(* One action per public method.  `q` is the queue content as a sequence   *)
(* of [id, p] records (p = payload tag), `ret` what the call returned.     *)
(* `pushed` / `popped` are observation histories used only by properties.  *)
(* `hist` is the operation history: it is what gets replayed on the real   *)
(* queue (spec -> code).                                                   *)
(***************************************************************************)
EXTENDS Integers, Sequences, FiniteSets, TLC, Json

CONSTANTS MaxLen,    \* bound on queue length in the model
          MaxOps,    \* length of emitted operation histories
          KSet,      \* values of k tried for PopN / PeekN, as offsets: see KOf
          IdSlack,   \* Push may pick any id in LastId+1 .. LastId+IdSlack
          PSet,      \* payload tags a Push may carry (small: equal payloads DO occur)
          Emit       \* TRUE: print each terminal history once ("B" lines)

VARIABLES q, ret, pushed, popped, hist, nextp

vars == <<q, ret, pushed, popped, hist, nextp>>

Nil == [kind |-> "nil"]
One(e) == [kind |-> "one", v |-> e]
Many(s) == [kind |-> "many", v |-> s]
Bool(b) == [kind |-> "bool", v |-> b]
None == [kind |-> "none"]          \* Push returns no element

LastId(s) == IF s = <<>> THEN 0 ELSE s[Len(s)].id

\* ---- pure reference functions (used by the model AND by the trace monitor)
Take(s, k) == IF k <= 0 THEN <<>> ELSE SubSeq(s, 1, IF k > Len(s) THEN Len(s) ELSE k)
Drop(s, k) == IF k <= 0 THEN s ELSE SubSeq(s, (IF k > Len(s) THEN Len(s) ELSE k) + 1, Len(s))

RefPop(s)      == IF s = <<>> THEN [q |-> s, ret |-> Nil] ELSE [q |-> Tail(s), ret |-> One(Head(s))]
RefPeek(s)     == IF s = <<>> THEN [q |-> s, ret |-> Nil] ELSE [q |-> s, ret |-> One(Head(s))]
RefPopN(s, k)  == IF k <= 0 \/ s = <<>> THEN [q |-> s, ret |-> Nil]
                  ELSE [q |-> Drop(s, k), ret |-> Many(Take(s, k))]
RefPeekN(s, k) == IF k <= 0 \/ s = <<>> THEN [q |-> s, ret |-> Nil]
                  ELSE [q |-> s, ret |-> Many(Take(s, k))]
RefEmpty(s)    == [q |-> s, ret |-> Bool(s = <<>>)]
\* Push: the new entry goes to the tail and carries an id above every queued id
PushOK(s, s2, p) == /\ Len(s2) = Len(s) + 1
                    /\ SubSeq(s2, 1, Len(s)) = s
                    /\ s2[Len(s2)].p = p
                    /\ s2[Len(s2)].id > LastId(s)

\* ---- model
Init == /\ q = <<>> /\ ret = None /\ pushed = <<>> /\ popped = <<>>
        /\ hist = <<>> /\ nextp = 1

\* k is expressed relative to the current length so that the same constant set
\* covers negative, zero, in-range, exactly-Len and out-of-range values.
KOf(off) == CASE off = "neg"  -> -1
              [] off = "zero" -> 0
              [] off = "one"  -> 1
              [] off = "two"  -> 2
              [] off = "len"  -> Len(q)
              [] off = "len1" -> Len(q) + 1
              [] off = "big"  -> 1000000

Step(op, k, res) ==
    /\ Len(hist) < MaxOps
    /\ q' = res.q /\ ret' = res.ret
    /\ hist' = Append(hist, [op |-> op, k |-> k])
    /\ popped' = IF op \in {"pop", "popn"} /\ res.ret.kind = "one" THEN Append(popped, res.ret.v.p)
                 ELSE IF op \in {"pop", "popn"} /\ res.ret.kind = "many"
                      THEN popped \o [i \in 1..Len(res.ret.v) |-> res.ret.v[i].p]
                 ELSE popped
    /\ UNCHANGED <<pushed, nextp>>

Push == /\ Len(hist) < MaxOps /\ Len(q) < MaxLen
        /\ \E i \in (LastId(q) + 1)..(LastId(q) + IdSlack), p \in PSet :
              /\ q' = Append(q, [id |-> i, p |-> p])
              /\ pushed' = Append(pushed, p)
              /\ hist' = Append(hist, [op |-> "push", k |-> p])
        /\ ret' = None
        /\ nextp' = nextp + 1
        /\ UNCHANGED popped
Pop   == Step("pop", 0, RefPop(q))
Peek  == Step("peek", 0, RefPeek(q))
Empty == Step("empty", 0, RefEmpty(q))
PopN  == \E o \in KSet : Step("popn", KOf(o), RefPopN(q, KOf(o)))
PeekN == \E o \in KSet : Step("peekn", KOf(o), RefPeekN(q, KOf(o)))

Next == Push \/ Pop \/ Peek \/ Empty \/ PopN \/ PeekN
Spec == Init /\ [][Next]_vars

\* ---- properties (C17)
Payloads(s) == [i \in 1..Len(s) |-> s[i].p]
\* strictly increasing sequence numbers in insertion order
C17_IdsIncreasing == \A i \in 1..(Len(q) - 1) : q[i].id < q[i + 1].id
\* FIFO: what was popped so far followed by what is queued is exactly what was pushed, in order
C17_Fifo == popped \o Payloads(q) = pushed
\* a pop-n is the same as n pops (checked on the reference functions themselves)
RECURSIVE PopTimes(_, _)
PopTimes(s, n) == IF n <= 0 \/ s = <<>> THEN s ELSE PopTimes(Tail(s), n - 1)
C17_PopNIsPops == \A o \in KSet : RefPopN(q, KOf(o)).q = PopTimes(q, KOf(o))
\* peeks and Empty never modify the queue
C17_PeeksPure == [][(Peek \/ PeekN \/ Empty) => UNCHANGED q]_vars
\* non-positive n or empty queue: nothing
C17_NothingOnEmpty == (q = <<>>) => /\ RefPop(q).ret = Nil /\ RefPeek(q).ret = Nil
                                    /\ \A o \in KSet : RefPopN(q, KOf(o)).ret = Nil /\ RefPeekN(q, KOf(o)).ret = Nil

Terminal == Len(hist) = MaxOps
EmitInv == IF Emit /\ Terminal THEN PrintT(<<"B", ToJson([ops |-> hist])>>) ELSE TRUE
=============================================================================
