---------------------------- MODULE TraceIQRoutes ----------------------------
(***************************************************************************)
(* Trace monitor for C07.  The harness (cmd/driver/c07.go) replays the     *)
(* schedules of IQRoutes.tla through the gates inside the library and      *)
(* records only what is observable:                                        *)
(*   sb     request r (id) has been written (SendIQ reached the wire)      *)
(*   look   the dispatch of inbound response k (id) has started            *)
(*   val    the channel of request r yielded response k;  closed / noval   *)
(*   ord    response k was handed to the ordinary routes                   *)
(*   cancel / clean   the context of r was cancelled / its goroutine ran   *)
(*   abandon   the receiver of r stops reading                             *)
(*   stuck  a dispatch goroutine never finished;  left  entries remaining  *)
(* Judged at the end of each schedule, by the rules of the property; the   *)
(* gates themselves are never judged.                                      *)
(***************************************************************************)
EXTENDS Integers, Sequences, FiniteSets, TLC, Json, IOUtils
Trace == ndJsonDeserialize(IOEnv.VERIF_TRACE)
VL == INSTANCE VerdictLib
VARIABLES l, tid, log, verdicts
tvars == <<l, tid, log, verdicts>>
AddV(vs) == IF VL!Record(vs) THEN verdicts + Len(vs) ELSE verdicts
V(clause, sig, detail) == [prop |-> "C07", clause |-> clause, sig |-> sig, tid |-> tid, idx |-> l, detail |-> detail]
Ev(x) == l <= Len(Trace) /\ Trace[l].ev = x
E == Trace[l]

Idx(P(_)) == {i \in 1..Len(log) : P(log[i])}
Reqs == {log[i].r : i \in Idx(LAMBDA e : e.ev = "sb")}
Resps == {log[i].k : i \in Idx(LAMBDA e : e.ev = "look")}
Pos(P(_)) == IF Idx(P) = {} THEN 0 ELSE CHOOSE i \in Idx(P) : \A j \in Idx(P) : i <= j
IdOfReq(r) == log[Pos(LAMBDA e : e.ev = "sb" /\ e.r = r)].id
IdOfResp(k) == log[Pos(LAMBDA e : e.ev = "look" /\ e.k = k)].id
Vals(r) == {log[i].k : i \in Idx(LAMBDA e : e.ev = "val" /\ e.r = r)}
NVals(r) == Cardinality(Idx(LAMBDA e : e.ev = "val" /\ e.r = r))
Ords == {log[i].k : i \in Idx(LAMBDA e : e.ev = "ord")}
Stuck == {log[i].k : i \in Idx(LAMBDA e : e.ev = "stuck")}
Has(ev, r) == Idx(LAMBDA e : e.ev = ev /\ e.r = r) # {}
UniqueId(r) == \A q \in Reqs : q # r => IdOfReq(q) # IdOfReq(r)
\* responses that belong to r: same id, dispatched after r was written and before r got a value or was cancelled
EndOf(r) == LET ps == Idx(LAMBDA e : (e.ev \in {"val", "cancel"}) /\ e.r = r) IN IF ps = {} THEN Len(log) + 1 ELSE CHOOSE i \in ps : \A j \in ps : i <= j
Cands(r) == {k \in Resps : IdOfResp(k) = IdOfReq(r)
                         /\ Pos(LAMBDA e : e.ev = "look" /\ e.k = k) > Pos(LAMBDA e : e.ev = "sb" /\ e.r = r)
                         /\ Pos(LAMBDA e : e.ev = "look" /\ e.k = k) < EndOf(r)}

Judge ==
    LET d == [log |-> [i \in 1..Len(log) |-> log[i].x]]
        vReq(r) ==
          (IF NVals(r) <= 1 THEN <<>> ELSE <<V("delivered-on-the-request-channel-at-most-once", "duplicate", d)>>) \o
          (IF \A k \in Vals(r) : k \in Resps => IdOfResp(k) = IdOfReq(r) THEN <<>> ELSE <<V("never-delivered-to-another-request", "foreign-id", d)>>) \o
          (IF ~UniqueId(r) \/ Cands(r) = {} \/ Has("abandon", r) \/ Has("cancel", r) \/ (Cands(r) \cap Stuck # {}) \/ NVals(r) = 1 THEN <<>>
           ELSE <<V("matching-response-delivered-exactly-once-even-right-after-the-write", IF NVals(r) = 0 THEN "not-delivered" ELSE "twice", d)>>) \o
          (IF ~UniqueId(r) \/ Has("cancel", r) \/ Has("abandon", r) \/ \A k \in Cands(r) \cap Ords : Vals(r) \ {k} # {} THEN <<>>
           ELSE <<V("not-handed-to-ordinary-routes-while-the-request-is-pending", "ordinary", d)>>) \o
          (IF NVals(r) = 0 \/ Has("abandon", r) \/ Has("closed", r) THEN <<>> ELSE <<V("channel-closed-after-delivery", "open", d)>>)
        RECURSIVE AllReq(_)
        AllReq(S) == IF S = {} THEN <<>> ELSE LET r == CHOOSE x \in S : TRUE IN vReq(r) \o AllReq(S \ {r})
        vStuck == IF Stuck = {} THEN <<>> ELSE <<V("never-blocks-packet-processing-for-ever", "stuck", d)>>
        \* every response is delivered to exactly one request or handed to the ordinary routes once
        delivered(k) == Cardinality({i \in Idx(LAMBDA e : e.ev = "val" /\ e.k = k) : TRUE})
        orded(k) == Cardinality(Idx(LAMBDA e : e.ev = "ord" /\ e.k = k))
        undone(k) == \E r \in Reqs : IdOfReq(r) = IdOfResp(k) /\ Has("abandon", r)     \* may sit unread in an abandoned channel
        vAcc == IF \A k \in Resps \ Stuck : delivered(k) + orded(k) = 1 \/ (delivered(k) + orded(k) = 0 /\ undone(k)) THEN <<>>
                ELSE <<V("each-response-delivered-or-routed-exactly-once", "accounting", d)>>
        \* after delivery the pending entry is gone: what is left are requests still waiting
        waiting == {r \in Reqs : NVals(r) = 0 /\ ~Has("clean", r) /\ ~(\E k \in Cands(r) : TRUE)}
        leftN == IF Idx(LAMBDA e : e.ev = "left") = {} THEN 0 ELSE log[Pos(LAMBDA e : e.ev = "left")].n
        vLeft == IF leftN < 0 THEN <<V("never-blocks-packet-processing-for-ever", "table-locked", d)>>
                 ELSE IF leftN <= Cardinality({r \in Reqs : NVals(r) = 0 /\ ~Has("clean", r)}) THEN <<>>
                 ELSE <<V("pending-entry-removed-after-delivery-or-cancellation", "left", d)>>
    IN AllReq(Reqs) \o vStuck \o vAcc \o vLeft

Rec(e) == [ev |-> e.ev, r |-> IF "r" \in DOMAIN e THEN e.r ELSE "", k |-> IF "k" \in DOMAIN e THEN e.k ELSE 0,
           id |-> IF "id" \in DOMAIN e /\ e.ev \in {"sb", "look", "arr"} THEN e.id ELSE 0, n |-> IF "n" \in DOMAIN e THEN e.n ELSE 0,
           x |-> e.ev \o ":" \o (IF "r" \in DOMAIN e THEN e.r ELSE "") \o ":" \o (IF "k" \in DOMAIN e THEN ToString(e.k) ELSE "")]

T_Reset == /\ Ev("reset") /\ tid' = E.tid /\ log' = <<>> /\ l' = l + 1 /\ UNCHANGED verdicts
T_Log == /\ l <= Len(Trace) /\ E.ev \in {"sb", "se", "arr", "look", "val", "closed", "noval", "ord", "cancel", "clean", "abandon", "stuck", "left"}
         /\ log' = Append(log, Rec(E)) /\ l' = l + 1 /\ UNCHANGED <<tid, verdicts>>
T_Fin == /\ Ev("fin") /\ verdicts' = AddV(Judge) /\ log' = <<>> /\ l' = l + 1 /\ UNCHANGED tid
T_Crash == /\ Ev("crash") /\ verdicts' = AddV(<<V("never-crashes-the-process", "panic", [msg |-> E.msg, log |-> [i \in 1..Len(log) |-> log[i].x]])>>)
           /\ log' = <<>> /\ l' = l + 1 /\ UNCHANGED tid
\* C09 (shared trace): IQ responses are stanzas, whether they go to a waiting SendIQ request or to the ordinary routes
T_AckH == /\ Ev("ackh")
          /\ verdicts' = IF E.h = E.want THEN verdicts
                         ELSE AddV(<<[prop |-> "C09", clause |-> "answer-h-equals-stanzas-received", sig |-> "iq-responses-to-a-pending-request",
                                     tid |-> tid, idx |-> l, detail |-> [h |-> E.h, want |-> E.want]]>>)
          /\ l' = l + 1 /\ UNCHANGED <<tid, log>>
T_Skip == /\ (Ev("note") \/ Ev("errcb") \/ Ev("event") \/ Ev("cutev"))
          /\ l' = l + 1 /\ UNCHANGED <<tid, log, verdicts>>
T_End == /\ Ev("end") /\ PrintT(<<"VERDICTS", ToJson(VL!All)>>) /\ PrintT(<<"CONSUMED", l>>)
         /\ l' = l + 1 /\ UNCHANGED <<tid, log, verdicts>>
TraceInit == l = 1 /\ tid = 0 /\ log = <<>> /\ verdicts = 0 /\ VL!InitV
TraceNext == T_Reset \/ T_AckH \/ T_Log \/ T_Fin \/ T_Crash \/ T_Skip \/ T_End
TraceSpec == TraceInit /\ [][TraceNext]_tvars
=============================================================================
