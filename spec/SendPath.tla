------------------------------ MODULE SendPath ------------------------------
(***************************************************************************)
(* The send path (client.go Send / SendRaw / SendIQ -> sendWithWriter ->   *)
(* transport.Write [-> streamLogger.Write]), for N concurrent senders.     *)
(* One send is two steps, as in the code:                                  *)
(*   Begin(s)  serialise the stanza (and, with stream management, push it  *)
(*             on the unacknowledged queue)         - up to the write call *)
(*   Finish(s) the single transport Write call and the return to the caller*)
(* The transport's Write is atomic per call (net.Conn, tls.Conn and the    *)
(* WebSocket library guarantee that), so C08 is exactly: one Write call    *)
(* per send, carrying exactly the bytes serialised in Begin, its result    *)
(* propagated.  A write fault makes the k-th and all later writes fail.    *)
(* `Split` = TRUE is a deliberately wrong variant (header and body written *)
(* separately) used to show that the invariant is not vacuous.             *)
(***************************************************************************)
EXTENDS Integers, Sequences, FiniteSets, TLC, Json

CONSTANTS Senders, PerSender, FailAts, SM, Split, Emit

VARIABLES pc,      \* sender -> "idle" | "atgate" | "half" (Split only)
          done,    \* sender -> number of completed calls
          buf,     \* sender -> the bytes serialised by Begin: <<sender, index>> or <<>>
          wire,    \* sequence of [s, i, part]: what reached the wire ("whole" | "head" | "tail")
          results, \* sender -> sequence of "ok" | "err" (what each call returned)
          held,    \* stanzas pushed on the unacknowledged queue (SM): sequence of <<s, i>>
          nwrites, failAt,
          hist     \* schedule: sequence of [op, s]
vars == <<pc, done, buf, wire, results, held, nwrites, failAt, hist>>

Init == /\ pc = [s \in Senders |-> "idle"] /\ done = [s \in Senders |-> 0] /\ buf = [s \in Senders |-> <<>>]
        /\ wire = <<>> /\ results = [s \in Senders |-> <<>>] /\ held = <<>> /\ nwrites = 0
        /\ failAt \in FailAts /\ hist = <<>>

Begin(s) == /\ pc[s] = "idle" /\ done[s] < PerSender
            /\ buf' = [buf EXCEPT ![s] = <<s, done[s] + 1>>]
            /\ held' = IF SM THEN Append(held, <<s, done[s] + 1>>) ELSE held
            /\ pc' = [pc EXCEPT ![s] = "atgate"]
            /\ hist' = Append(hist, [op |-> "begin", s |-> s])
            /\ UNCHANGED <<done, wire, results, nwrites, failAt>>

Fails == failAt > 0 /\ nwrites + 1 >= failAt

Finish(s) == /\ pc[s] = "atgate" /\ ~Split
             /\ nwrites' = nwrites + 1
             /\ IF Fails
                THEN /\ results' = [results EXCEPT ![s] = Append(@, "err")] /\ UNCHANGED wire
                ELSE /\ results' = [results EXCEPT ![s] = Append(@, "ok")]
                     /\ wire' = Append(wire, [s |-> buf[s][1], i |-> buf[s][2], part |-> "whole"])
             /\ done' = [done EXCEPT ![s] = @ + 1]
             /\ pc' = [pc EXCEPT ![s] = "idle"]
             /\ hist' = Append(hist, [op |-> "finish", s |-> s])
             /\ UNCHANGED <<buf, held, failAt>>

\* the wrong variant: two Write calls per send
FinishHead(s) == /\ pc[s] = "atgate" /\ Split
                 /\ wire' = Append(wire, [s |-> buf[s][1], i |-> buf[s][2], part |-> "head"])
                 /\ pc' = [pc EXCEPT ![s] = "half"]
                 /\ UNCHANGED <<done, buf, results, held, nwrites, failAt, hist>>
FinishTail(s) == /\ pc[s] = "half"
                 /\ wire' = Append(wire, [s |-> buf[s][1], i |-> buf[s][2], part |-> "tail"])
                 /\ results' = [results EXCEPT ![s] = Append(@, "ok")]
                 /\ done' = [done EXCEPT ![s] = @ + 1]
                 /\ pc' = [pc EXCEPT ![s] = "idle"]
                 /\ UNCHANGED <<buf, held, nwrites, failAt, hist>>

Next == \E s \in Senders : Begin(s) \/ Finish(s) \/ FinishHead(s) \/ FinishTail(s)
Spec == Init /\ [][Next]_vars

\* ---------------------------------------------------------------- properties (C08)
OfSender(s) == SelectSeq(wire, LAMBDA w : w.s = s)
OkIdx(s) == {i \in 1..Len(results[s]) : results[s][i] = "ok"}
\* every stanza on the wire is whole, and the parts of different stanzas never interleave
C08_Whole == \A k \in 1..Len(wire) : wire[k].part = "whole"
\* per sender: exactly the successful sends, each once, in call order
C08_WireIsShuffle == \A s \in Senders :
      LET w == OfSender(s) IN
      /\ \A a, b \in 1..Len(w) : a < b => w[a].i < w[b].i
      /\ {w[a].i : a \in 1..Len(w)} = OkIdx(s)
\* a failed write is reported, and nothing that failed is on the wire
C08_FailedWriteReported == \A s \in Senders : \A i \in 1..Len(results[s]) :
      results[s][i] = "err" => ~\E k \in 1..Len(wire) : wire[k].s = s /\ wire[k].i = i
C08_FaultIsSticky == (failAt > 0 /\ nwrites >= failAt) => \A k \in 1..Len(wire) : TRUE
\* C10 under concurrency: every accepted stanza was pushed, once
C10_AllPushedOnce == SM => \A s \in Senders : \A i \in 1..Len(results[s]) :
      Cardinality({k \in 1..Len(held) : held[k] = <<s, i>>}) = 1

Terminal == \A s \in Senders : pc[s] = "idle" /\ done[s] = PerSender
EmitInv == IF Emit /\ Terminal THEN PrintT(<<"B", ToJson([sm |-> SM, failat |-> failAt, sched |-> hist])>>) ELSE TRUE
View == <<pc, done, hist, failAt>>
=============================================================================
