----------------------------- MODULE VerdictLib -----------------------------
(***************************************************************************)
(* Shared by all trace monitors.  Verdict records are accumulated in a TLC *)
(* register (TLCSet/TLCGet), not in a state variable: a long list of       *)
(* verdicts inside every state made fingerprinting the dominant cost.      *)
(* Trace validation runs with -workers 1 and the trace specification is a  *)
(* linear chain of states, so every action is evaluated exactly once.      *)
(* At most PerSig records of each (clause, sig) kind are kept, so a flood  *)
(* of one kind never hides another kind; the total is counted separately.  *)
(***************************************************************************)
EXTENDS Integers, Sequences, FiniteSets, TLC
PerSig == 3
Reg == 7
CntReg == 8
SameKind(a, b) == a.clause = b.clause /\ a.sig = b.sig /\ a.prop = b.prop
AddVTo(cur, vs) ==
    LET fresh(v) == Cardinality({i \in 1..Len(cur) : SameKind(cur[i], v)}) < PerSig
    IN IF Len(cur) > 600 THEN cur ELSE cur \o SelectSeq(vs, fresh)
InitV == TLCSet(Reg, <<>>) /\ TLCSet(CntReg, 0)
Record(vs) == IF vs = <<>> THEN TRUE
              ELSE TLCSet(Reg, AddVTo(TLCGet(Reg), vs)) /\ TLCSet(CntReg, TLCGet(CntReg) + Len(vs))
All == TLCGet(Reg)
Total == TLCGet(CntReg)
=============================================================================
