----------------------------- MODULE VerdictLib -----------------------------
(* Shared by all trace monitors: verdict lists keep at most PerSig records  *)
(* of each (clause, sig) kind, so a flood of one kind never hides another.  *)
EXTENDS Integers, Sequences, FiniteSets
PerSig == 3
SameKind(a, b) == a.clause = b.clause /\ a.sig = b.sig
AddVTo(cur, vs) ==
    LET fresh(v) == Cardinality({i \in 1..Len(cur) : SameKind(cur[i], v)}) < PerSig
    IN IF Len(cur) > 400 THEN cur ELSE cur \o SelectSeq(vs, fresh)
=============================================================================
