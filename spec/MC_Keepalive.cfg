SPECIFICATION Spec
CONSTANTS
  MaxTicks = 4
  FailAts = {0, 1, 2, 3, 4}
  QuitPhases = {"idle", "attick", "never"}
  Emit = TRUE
INVARIANTS C18_PingPerTick C18_FailureClosesOnce C18_NoPingAfterFailure C18_NoPingAfterEnd EmitInv
PROPERTIES C18_StopsWithSession
CHECK_DEADLOCK FALSE
