---------------------------- MODULE Negotiation ----------------------------
(***************************************************************************)
(* Session negotiation of the client (session.go NewSession and its steps, *)
(* auth.go, client.go connect/Connect/Resume, xmpp_transport.go Connect /  *)
(* StartStream / StartTLS) - the INTENDED behaviour that C03 C04 C11 C14   *)
(* describe - as a stage machine.  One stage = the client has written a    *)
(* request and waits for the server; the environment (server) picks the    *)
(* reply from that stage's alphabet; Step() is the client's reaction.      *)
(*                                                                         *)
(* Objects that persist in the code persist here: the Client / Session /   *)
(* Transport are reused across connections, so the carried state (`keep`)  *)
(* - stream-management id, inbound count - survives a reconnect, while the *)
(* "secure" flag must NOT (it belongs to a connection).                    *)
(*                                                                         *)
(* Step is a pure operator over the connection record so that the model    *)
(* checker and the trace monitor share it.                                 *)
(***************************************************************************)
EXTENDS Integers, Sequences, FiniteSets, TLC, Json

CONSTANTS Configs,    \* set of client configurations (records, see below)
          MaxConns,   \* connections per behaviour
          F1s, TlsRs, Certs, F2s, AuthRs, F3s, ResRs, BindRs, SessRs, EnRs, MechLists,
          Emit

(***************************************************************************)
(* cfg: [insecure, sm, tls, cred, ws, wss, skiptls]                        *)
(*   tls  : "none" | "ca" | "casn" | "caother" | "cahost" | "skip"   (client TLS cfg) *)
(*   cred : "password" | "token"                                           *)
(*   ws / wss : WebSocket transport (no STARTTLS; secure iff wss:, where   *)
(*              the certificate is checked by the dial: stage "wsdial")    *)
(*   skiptls  : only the trace monitor sets it: in insecure mode the       *)
(*              statement does not say whether STARTTLS is attempted       *)
(*   sessalways: only the trace monitor sets it: an optional legacy        *)
(*              session may be negotiated anyway                           *)
(***************************************************************************)

VARIABLES cfg, keep, conn, nconn, hist
vars == <<cfg, keep, conn, nconn, hist>>

\* ---------------------------------------------------------------- certificates
\* does the server certificate validate for the configured domain under this client TLS config?
CertOK(tls, cert) ==
    CASE tls = "skip"    -> cert # "nottls"
      [] tls = "ca"      -> cert = "valid"
      [] tls = "casn"    -> cert = "valid"          \* ServerName = the domain, set explicitly
      [] tls = "caother" -> FALSE                   \* ServerName differs from the domain: nothing validates for both
      [] tls = "cahost"  -> FALSE                   \* the server is reached through a host NAME (the address) that is not the domain, and
                                                    \* the certificates name that host or other hosts, never the domain: what counts is the domain
      [] tls = "none"    -> FALSE                   \* test CA not in the system roots
      [] OTHER           -> FALSE

\* ---------------------------------------------------------------- SASL (C14)
Supported(cred) == IF cred = "password" THEN <<"PLAIN">> ELSE <<"X-OAUTH2">>
InList(m, l) == \E i \in 1..Len(l) : l[i] = m
ChosenMech(cred, offered) ==
    LET s == Supported(cred) IN
    IF \E i \in 1..Len(s) : InList(s[i], offered)
    THEN s[CHOOSE i \in 1..Len(s) : InList(s[i], offered) /\ \A j \in 1..(i - 1) : ~InList(s[j], offered)]
    ELSE "none"

\* ---------------------------------------------------------------- connection record
\* wire: what the client wrote, [k, enc]; k in open starttls auth resume bind session enable
W(k, c) == [k |-> k, enc |-> c.secure]
NewConn(n) == [n |-> n, pc |-> "open1", secure |-> FALSE, certok |-> FALSE, wire |-> <<[k |-> "open", enc |-> FALSE]>>,
               out |-> "run", f3 |-> "", mech |-> "", resumed |-> FALSE, bound |-> FALSE]
\* wss: nothing is written before the TLS handshake of the dial has accepted the server's certificate
NewConnCf(n, cf) == IF cf.ws /\ cf.wss THEN [NewConn(n) EXCEPT !.pc = "wsdial", !.wire = <<>>] ELSE NewConn(n)
Keep0 == [smid |-> "", inbound |-> 0]

Fail(c, how) == [c EXCEPT !.pc = "done", !.out = how]
Send(c, k, pc) == [c EXCEPT !.wire = Append(@, W(k, c)), !.pc = pc]

HasSM(f3) == f3 \in {"bm", "bsm", "bom"}
SessionMandatory(f3) == f3 \in {"bs", "bsm"}
SessionOffered(f3) == f3 \in {"bs", "bsm", "bo", "bom"}

\* after the features that follow authentication
AfterAuthFeatures(c, k, f3, cf) ==
    IF HasSM(f3) /\ k.smid # "" THEN Send([c EXCEPT !.f3 = f3], "resume", "resr")
    ELSE Send([c EXCEPT !.f3 = f3], "bind", "bindr")
EnableOrDone(c, cf) ==
    IF HasSM(c.f3) /\ cf.sm THEN Send(c, "enable", "enr") ELSE [c EXCEPT !.pc = "done", !.out = "ok"]
AuthOrFail(c, cf, mechs) ==
    LET m == ChosenMech(cf.cred, mechs) IN
    IF m = "none" THEN Fail(c, "perm")                      \* nothing is written, permanent error
    ELSE Send([c EXCEPT !.mech = m], "auth", "authr")

(***************************************************************************)
(* Step: the client's reaction to reply r in stage c.pc.                   *)
(* Returns [c |-> connection', k |-> carried state']                       *)
(***************************************************************************)
Step(c, k, cf, r) ==
    CASE c.pc = "wsdial" ->
            \* the WebSocket library verifies the certificate against the URL's host with the system roots; the
            \* client's TLSConfig plays no part
            [k |-> k, c |-> IF r.v = "valid" THEN Send([c EXCEPT !.secure = TRUE, !.certok = TRUE], "open", "open1") ELSE Fail(c, "err")]
      [] c.pc = "open1" ->
            [k |-> k, c |->
             IF r.v \in {"bad", "close", "other"} THEN Fail(c, "err")
             ELSE IF cf.ws THEN (IF cf.wss \/ cf.insecure THEN AuthOrFail(c, cf, r.mechs) ELSE Fail(c, "perm"))  \* WebSocket: no STARTTLS
             ELSE IF r.v \in {"tls", "tlsreq"} /\ ~(cf.insecure /\ cf.skiptls) THEN Send(c, "starttls", "tlsr")
             ELSE (* "notls" *) IF cf.insecure THEN AuthOrFail(c, cf, r.mechs) ELSE Fail(c, "perm")]
      [] c.pc = "tlsr" ->
            [k |-> k, c |-> IF r.v = "proceed" THEN [c EXCEPT !.pc = "cert"] ELSE Fail(c, IF cf.insecure THEN "err" ELSE "perm")]
      [] c.pc = "cert" ->
            [k |-> k, c |-> IF CertOK(cf.tls, r.v)
                            THEN Send([c EXCEPT !.secure = TRUE, !.certok = TRUE], "open", "open2")
                            ELSE Fail(c, IF cf.insecure THEN "err" ELSE "perm")]
      [] c.pc = "open2" ->
            [k |-> k, c |-> IF r.v = "mech" THEN AuthOrFail(c, cf, r.mechs) ELSE Fail(c, "err")]
      [] c.pc = "authr" ->
            [k |-> k, c |-> IF r.v \in {"success", "successdata"} THEN Send(c, "open", "open3")
                            ELSE IF r.v \in {"failure", "failuretext"} THEN Fail(c, "perm")
                            ELSE Fail(c, "err")]
      [] c.pc = "open3" ->
            [k |-> k, c |-> IF r.v \in {"close", "bad"} THEN Fail(c, "err") ELSE AfterAuthFeatures(c, k, r.v, cf)]
      [] c.pc = "resr" ->
            IF r.v = "resumed" THEN [k |-> k, c |-> [c EXCEPT !.pc = "done", !.out = "ok", !.resumed = TRUE]]
            ELSE IF r.v \in {"failed", "faileditem", "failedcond"} THEN [k |-> Keep0, c |-> Send(c, "bind", "bindr")]     \* refused: always a fresh bind
            ELSE [k |-> Keep0, c |-> Fail(c, "err")]                                                     \* other id, unexpected, closed
      [] c.pc = "bindr" ->
            [k |-> k, c |-> IF r.v = "result"
                            THEN IF SessionMandatory(c.f3) \/ (cf.sessalways /\ SessionOffered(c.f3))
                                 THEN Send([c EXCEPT !.bound = TRUE], "session", "sessr")
                                 ELSE EnableOrDone([c EXCEPT !.bound = TRUE], cf)
                            ELSE Fail(c, "err")]
      [] c.pc = "sessr" ->
            [k |-> k, c |-> IF r.v = "result" THEN EnableOrDone(c, cf) ELSE Fail(c, "err")]
      [] c.pc = "enr" ->
            IF r.v \in {"enabled", "enablednoresume"}
            THEN [k |-> [smid |-> IF r.v = "enabled" THEN "id" \o ToString(c.n) ELSE "", inbound |-> 0],
                  c |-> [c EXCEPT !.pc = "done", !.out = "ok"]]
            ELSE [k |-> Keep0, c |-> Fail(c, "err")]
      [] OTHER -> [k |-> k, c |-> c]

\* the replies the environment may give in stage pc
Rep(v) == [v |-> v, mechs |-> <<>>]
RepM(v, m) == [v |-> v, mechs |-> m]
Alphabet(pc) ==
    CASE pc = "wsdial" -> {Rep(v) : v \in Certs \ {"nottls"}}
      [] pc = "open1" -> {RepM(v, m) : v \in F1s \ {"bad", "close", "other"}, m \in MechLists} \cup {Rep(v) : v \in F1s \cap {"bad", "close", "other"}}
      [] pc = "tlsr"  -> {Rep(v) : v \in TlsRs}
      [] pc = "cert"  -> {Rep(v) : v \in Certs}
      [] pc = "open2" -> {RepM(v, m) : v \in F2s \ {"close"}, m \in MechLists} \cup {Rep(v) : v \in F2s \cap {"close"}}
      [] pc = "authr" -> {Rep(v) : v \in AuthRs}
      [] pc = "open3" -> {Rep(v) : v \in F3s}
      [] pc = "resr"  -> {Rep(v) : v \in ResRs}
      [] pc = "bindr" -> {Rep(v) : v \in BindRs}
      [] pc = "sessr" -> {Rep(v) : v \in SessRs}
      [] pc = "enr"   -> {Rep(v) : v \in EnRs}
      [] OTHER        -> {}

\* ---------------------------------------------------------------- model
Init == /\ cfg \in Configs /\ keep = Keep0 /\ conn = NewConnCf(1, cfg) /\ nconn = 1
        /\ hist = <<[op |-> "connect", replies |-> <<>>]>>

Reply(r) == /\ conn.pc # "done"
            /\ LET s == Step(conn, keep, cfg, r) IN conn' = s.c /\ keep' = s.k
            /\ hist' = [hist EXCEPT ![Len(hist)].replies = Append(@, [stage |-> conn.pc, v |-> r.v, mechs |-> r.mechs])]
            /\ UNCHANGED <<cfg, nconn>>

\* the connection is over (failed, or established and later lost): the application reconnects
Reconnect(op) == /\ conn.pc = "done" /\ nconn < MaxConns
                 /\ conn' = NewConnCf(nconn + 1, cfg) /\ nconn' = nconn + 1
                 /\ hist' = Append(hist, [op |-> op, replies |-> <<>>])
                 /\ UNCHANGED <<cfg, keep>>

Next == (\E r \in Alphabet(conn.pc) : Reply(r)) \/ (\E op \in {"resume", "connect"} : Reconnect(op))
Spec == Init /\ [][Next]_vars

\* ---------------------------------------------------------------- properties
Sensitive == {"auth", "resume", "bind", "session", "enable"}
\* C04: nothing sensitive without verified TLS unless insecure mode was requested
C04_NoSecretInClear == \A i \in 1..Len(conn.wire) :
      conn.wire[i].k \in Sensitive => (cfg.insecure \/ (conn.wire[i].enc /\ conn.certok))
\* C03: requests in RFC 6120 order
Kinds == [i \in 1..Len(conn.wire) |-> conn.wire[i].k]
Rank(k) == CASE k = "open" -> 0 [] k = "starttls" -> 1 [] k = "auth" -> 2 [] k = "resume" -> 3 [] k = "bind" -> 4
             [] k = "session" -> 5 [] k = "enable" -> 6
C03_WireOrder == \A i, j \in 1..Len(conn.wire) : (i < j /\ Kinds[i] # "open" /\ Kinds[j] # "open") => Rank(Kinds[i]) < Rank(Kinds[j])
C03_AtMostOnceEach == \A i, j \in 1..Len(conn.wire) : (i # j /\ Kinds[i] = Kinds[j]) => Kinds[i] = "open"
\* success needs auth confirmed and (a matching resumption or a bind result)
C03_SuccessNeedsSteps == (conn.pc = "done" /\ conn.out = "ok") =>
      /\ \E i \in 1..Len(conn.wire) : Kinds[i] = "auth"
      /\ (conn.resumed \/ conn.bound)
      /\ (cfg.insecure \/ conn.secure)
\* C11
C11_ResumeOnlyWithId == (\E i \in 1..Len(conn.wire) : Kinds[i] = "resume") => conn.n > 1
C11_ResumedMeansNoBind == conn.resumed => ~\E i \in 1..Len(conn.wire) : Kinds[i] = "bind"
\* C14
C14_OnlyAdvertisedMech == (\E i \in 1..Len(conn.wire) : Kinds[i] = "auth") => conn.mech \in {"PLAIN", "X-OAUTH2"}
C14_MechMatchesCredential == conn.mech # "" => conn.mech = Supported(cfg.cred)[1]

Terminal == conn.pc = "done" /\ nconn = MaxConns
EmitInv == IF Emit /\ Terminal THEN PrintT(<<"B", ToJson([cfg |-> cfg, conns |-> hist])>>) ELSE TRUE
=============================================================================
