-------------------------- MODULE TraceNegotiation --------------------------
(***************************************************************************)
(* Trace monitor for session negotiation (C03 C04 C11 C14).                *)
(* Events (cmd/driver/neg.go):                                             *)
(*   reset   scenario start: cfg, user and secret as byte sequences        *)
(*   op      a connection attempt starts (connect | resume), nst           *)
(*   cliel   the server read an element the client wrote (k, enc, ...)     *)
(*   srvrep  the server is about to give reply v in stage `stage`          *)
(*   ret     the attempt returned: ok | err | perm | hang                  *)
(*   state   public state after the attempt (bindjid, smid, inbound)       *)
(*   event   connection event (state)                                      *)
(*   sess    stanzas delivered / handled while the session was up          *)
(* For every attempt the reference (Negotiation!Step folded over the       *)
(* logged replies) gives the expected client requests, their order and     *)
(* protection, and the outcome; they are compared when `ret` arrives.      *)
(***************************************************************************)
EXTENDS Integers, Sequences, FiniteSets, TLC, Json, IOUtils

Trace == ndJsonDeserialize(IOEnv.VERIF_TRACE)
VL == INSTANCE VerdictLib
N == INSTANCE Negotiation WITH Configs <- {}, MaxConns <- 0, F1s <- {}, TlsRs <- {}, Certs <- {}, F2s <- {}, AuthRs <- {},
        F3s <- {}, ResRs <- {}, BindRs <- {}, SessRs <- {}, EnRs <- {}, MechLists <- {}, Emit <- FALSE,
        cfg <- 0, keep <- 0, conn <- 0, nconn <- 0, hist <- <<>>

VARIABLES l, tid, cf, user, secret,
          keep,     \* carried state of the reference (smid, inbound)
          kprev,    \* carried state at the start of the current attempt
          n, op, nst,
          reps,     \* replies logged during the current attempt
          els,      \* client elements logged during the current attempt
          estab,    \* number of session-established events during the attempt
          lastret,  \* outcome of the attempt (for the state / sess events)
          expc,     \* reference connection record at ret
          bindjid,  \* BindJid after the last successful bind
          smdown,   \* an <enabled/> without resumption was seen: the library then stops requesting stream management
          dead, verdicts
tvars == <<l, tid, cf, user, secret, keep, kprev, n, op, nst, reps, els, estab, lastret, expc, bindjid, smdown, dead, verdicts>>
AddV(vs) == IF VL!Record(vs) THEN verdicts + Len(vs) ELSE verdicts
V(prop, clause, sig, detail) == [prop |-> prop, clause |-> clause, sig |-> sig, tid |-> tid, idx |-> l, detail |-> detail]
Ev(x) == l <= Len(Trace) /\ Trace[l].ev = x
E == Trace[l]

RECURSIVE Fold(_, _, _, _)
Fold(c, k, cfg, rs) ==
    IF rs = <<>> \/ c.pc = "done" THEN [c |-> c, k |-> k]
    ELSE LET r == Head(rs)
             \* a reply logged for another stage than the reference is in: the client diverged; stop here
             s == IF r.stage = c.pc THEN N!Step(c, k, cfg, r) ELSE [c |-> c, k |-> k]
         IN IF r.stage = c.pc THEN Fold(s.c, s.k, cfg, Tail(rs)) ELSE [c |-> c, k |-> k]

Kinds(w) == [i \in 1..Len(w) |-> [k |-> w[i].k, enc |-> w[i].enc]]
\* elements the negotiation itself consists of (presence / stanzas after success and the closing tag are not part of it)
NegKinds == {"open", "starttls", "auth", "resume", "bind", "session", "enable"}
ObsNeg == SelectSeq(els, LAMBDA e : e.k \in NegKinds \/ e.k \in {"other", "iq"})
Sensitive == {"auth", "resume", "bind", "session", "enable", "presence", "message", "iq", "a", "r"}
StageSig(c) == IF Len(reps) = 0 THEN "none" ELSE reps[Len(reps)].stage \o ":" \o reps[Len(reps)].v

T_Reset == /\ Ev("reset")
           /\ tid' = E.tid /\ cf' = E.cfg /\ user' = E.user /\ secret' = E.secret
           /\ keep' = N!Keep0 /\ kprev' = N!Keep0 /\ n' = 0 /\ op' = "" /\ nst' = 0 /\ reps' = <<>> /\ els' = <<>> /\ estab' = 0
           /\ lastret' = "" /\ expc' = N!NewConn(0) /\ bindjid' = "" /\ smdown' = FALSE /\ dead' = FALSE
           /\ l' = l + 1 /\ UNCHANGED verdicts

T_Op == /\ Ev("op")
        /\ n' = E.n /\ op' = E.op /\ nst' = E.nst /\ reps' = <<>> /\ els' = <<>> /\ estab' = 0 /\ kprev' = keep
        /\ l' = l + 1 /\ UNCHANGED <<tid, cf, user, secret, keep, lastret, expc, bindjid, smdown, dead, verdicts>>

T_Rep == /\ Ev("srvrep")
         /\ reps' = Append(reps, [stage |-> E.stage, v |-> E.v, mechs |-> E.mechs])
         /\ l' = l + 1 /\ UNCHANGED <<tid, cf, user, secret, keep, kprev, n, op, nst, els, estab, lastret, expc, bindjid, smdown, dead, verdicts>>

\* C04 is judged on every element as it arrives, independently of the reference
T_El == /\ Ev("cliel")
        /\ els' = Append(els, E)
        /\ LET certok == \E i \in 1..Len(reps) : \/ (reps[i].stage = "cert" /\ N!CertOK(cf.tls, reps[i].v))
                                                  \/ (reps[i].stage = "wsdial" /\ reps[i].v = "valid")
               bad == E.k \in Sensitive /\ ~cf.insecure /\ ~(E.enc /\ certok)
           IN verdicts' = IF bad /\ ~dead
                          THEN AddV(<<V("C04", IF E.enc THEN "nothing-sensitive-over-tls-with-an-invalid-certificate" ELSE "nothing-sensitive-in-clear-text",
                                        E.k \o "/conn" \o (IF n > 1 THEN "N" ELSE "1") \o "/" \o cf.tls \o "/" \o StageSig(0),
                                        [el |-> E.k, enc |-> E.enc, conn |-> n, cfg |-> cf, replies |-> reps])>>)
                          ELSE verdicts
        /\ l' = l + 1 /\ UNCHANGED <<tid, cf, user, secret, keep, kprev, n, op, nst, reps, estab, lastret, expc, bindjid, smdown, dead>>

T_Event == /\ Ev("event")
           /\ estab' = IF E.state = 2 THEN estab + 1 ELSE estab
           /\ l' = l + 1 /\ UNCHANGED <<tid, cf, user, secret, keep, kprev, n, op, nst, reps, els, lastret, expc, bindjid, smdown, dead, verdicts>>

JudgeRet(e) ==
    LET obs  == [i \in 1..Len(ObsNeg) |-> [k |-> ObsNeg[i].k, enc |-> ObsNeg[i].enc]]
        \* freedoms the statement leaves: STARTTLS in insecure mode, an optional legacy session negotiated anyway
        alts == <<cf, [cf EXCEPT !.sessalways = TRUE]>> \o
                (IF cf.insecure THEN <<[cf EXCEPT !.skiptls = TRUE], [cf EXCEPT !.skiptls = TRUE, !.sessalways = TRUE]>> ELSE <<>>) \o
                (IF smdown THEN <<[cf EXCEPT !.sm = FALSE], [cf EXCEPT !.sm = FALSE, !.sessalways = TRUE]>> ELSE <<>>)
        folds == [i \in 1..Len(alts) |-> Fold(N!NewConnCf(n, alts[i]), keep, alts[i], reps)]
        match == {i \in 1..Len(alts) : Kinds(folds[i].c.wire) = obs}
        f    == IF match = {} THEN folds[1] ELSE folds[CHOOSE i \in match : \A j \in match : i <= j]
        c    == f.c
        want == IF c.pc = "done" THEN c.out ELSE "err"       \* script ended before the client finished: it cannot succeed
        sig  == StageSig(0)
        d    == [cfg |-> cf, conn |-> n, op |-> op, replies |-> reps, obs |-> obs, expected |-> Kinds(c.wire), got |-> e.out, want |-> want,
                 carried |-> keep]
        v1 == IF e.out = "hang" THEN <<V("C03", "connecting-never-hangs", sig, d)>> ELSE <<>>
        v2 == IF e.out = "hang" \/ (want = "ok") = (e.out = "ok") THEN <<>> ELSE
                <<V("C03", IF want = "ok" THEN "succeeds-when-every-mandatory-step-completed" ELSE "never-reports-success-otherwise", sig, d)>>
        v3 == IF Kinds(c.wire) = obs THEN <<>> ELSE
                <<V(IF \E i \in 1..Len(obs) : obs[i].k = "resume" \/ \E j \in 1..Len(c.wire) : c.wire[j].k = "resume" THEN "C11" ELSE "C03",
                    "requests-in-rfc6120-order-each-after-confirmation", sig, d)>>
        v4 == IF (estab = 1) = (e.out = "ok") /\ estab <= 1 THEN <<>> ELSE
                <<V("C03", "session-established-announced-exactly-on-success", sig, [d EXCEPT !.obs = estab])>>
        \* C14: permanent error when nothing can be negotiated or the credentials are rejected
        permwant == \/ (Len(reps) > 0 /\ reps[Len(reps)].stage = "authr" /\ reps[Len(reps)].v \in {"failure", "failuretext"})
                    \/ (c.pc = "done" /\ c.out = "perm" /\ Len(reps) > 0 /\ reps[Len(reps)].stage \in {"open1", "open2"}
                        /\ reps[Len(reps)].v \in {"notls", "mech", "tls", "tlsreq"} /\ N!ChosenMech(cf.cred, reps[Len(reps)].mechs) = "none"
                        /\ (cf.insecure \/ reps[Len(reps)].stage = "open2"))
        v5 == IF ~permwant \/ e.out = "perm" THEN <<>> ELSE
                <<V("C14", "rejected-credentials-or-no-common-mechanism-is-a-permanent-error", sig, d)>>
        \* C14: the auth element
        auths == SelectSeq(els, LAMBDA x : x.k = "auth")
        offered == IF \E i \in 1..Len(reps) : reps[i].stage \in {"open1", "open2"} /\ reps[i].v \in {"notls", "mech", "tls", "tlsreq"}
                   THEN reps[CHOOSE i \in 1..Len(reps) : reps[i].stage \in {"open1", "open2"} /\ reps[i].v \in {"notls", "mech", "tls", "tlsreq"}
                                 /\ \A j \in (i + 1)..Len(reps) : ~(reps[j].stage \in {"open1", "open2"})].mechs
                   ELSE <<>>
        v6 == IF auths = <<>> THEN <<>> ELSE
              LET a == auths[1] IN
              (IF a.mech = N!ChosenMech(cf.cred, offered) THEN <<>> ELSE
                 <<V("C14", "mechanism-advertised-and-supported-by-the-credential", cf.cred, [mech |-> a.mech, offered |-> offered, cred |-> cf.cred])>>) \o
              (IF a.payload = (<<0>> \o user) \o (<<0>> \o secret) THEN <<>> ELSE
                 <<V("C14", "payload-is-nul-user-nul-secret", cf.cred, [payload |-> a.payload, user |-> user, secret |-> secret])>>)
        \* C11: the resume element
        rs == SelectSeq(els, LAMBDA x : x.k = "resume")
        v7 == IF rs = <<>> THEN <<>> ELSE
              LET r == rs[1] IN
              (IF keep.smid # "" /\ r.previd = keep.smid THEN <<>> ELSE
                 <<V("C11", "resume-only-with-the-id-last-obtained", IF keep.smid = "" THEN "no-id" ELSE "stale-id", [previd |-> r.previd, have |-> keep.smid, d |-> d])>>) \o
              (IF r.h = keep.inbound THEN <<>> ELSE
                 <<V("C11", "resume-carries-the-inbound-count", "h", [h |-> r.h, want |-> keep.inbound, d |-> d]),
                   V("C09", "resume-h-equals-stanzas-received-on-the-managed-session", "h", [h |-> r.h, want |-> keep.inbound, d |-> d])>>)
    IN [vs |-> v1 \o v2 \o v3 \o v4 \o v5 \o v6 \o v7, c |-> c, k |-> f.k, want |-> want]

T_Ret == /\ Ev("ret")
         /\ LET j == JudgeRet(E) IN
            /\ verdicts' = IF dead THEN verdicts ELSE AddV(j.vs)
            /\ keep' = j.k /\ expc' = j.c
         /\ lastret' = E.out
         /\ smdown' = (smdown \/ \E i \in 1..Len(reps) : reps[i].stage = "enr" /\ reps[i].v = "enablednoresume")
         /\ l' = l + 1 /\ UNCHANGED <<tid, cf, user, secret, kprev, n, op, nst, reps, els, estab, bindjid, dead>>

\* public state after the attempt (C11: identity and counters kept on resumption, stale state dropped otherwise)
T_State == /\ Ev("state")
           /\ LET ok == lastret = "ok" /\ expc.out = "ok"
                  d == [smid |-> E.smid, inbound |-> E.inbound, bindjid |-> E.bindjid, want |-> keep, resumed |-> expc.resumed, before |-> kprev, prevjid |-> bindjid]
                  v1 == IF ~ok \/ ~expc.resumed \/ (E.smid = kprev.smid /\ E.inbound = kprev.inbound /\ E.bindjid = bindjid) THEN <<>> ELSE
                          <<V("C11", "resumed-session-keeps-identity-and-counters", "resumed", d)>>
                  \* over WebSocket a connection dropped right after <resume/> can surface as a failed WRITE of the request
                  \* (the library reports a write error although the frame left): the client then cannot know whether the
                  \* request was seen and may keep the state for another try; over TCP the drop is seen by the read
                  \* (the scripted server now waits 40 ms before such a drop, so that the request has been written: the
                  \* exemption is kept for the write-failure path only in name - it is switched off)
                  wsDropAtResume == FALSE
                  v2 == IF lastret = "hang" \/ expc.resumed \/ kprev.smid = "" \/ E.smid # kprev.smid \/ keep.smid = kprev.smid \/ wsDropAtResume THEN <<>> ELSE
                          <<V("C11", "stale-resumption-state-is-discarded", IF Len(reps) = 0 THEN "none" ELSE reps[Len(reps)].stage \o ":" \o reps[Len(reps)].v, d)>>
                  v3 == IF ~ok \/ expc.resumed \/ E.smid = keep.smid THEN <<>> ELSE
                          <<V("C11", "session-id-is-the-one-the-server-assigned", "enabled", d)>>
              IN verdicts' = IF dead THEN verdicts ELSE AddV(v1 \o v2 \o v3)
           /\ bindjid' = IF lastret = "ok" /\ ~expc.resumed THEN E.bindjid ELSE bindjid
           \* the reference follows the client when it legitimately kept the state (see wsDropAtResume)
           /\ keep' = keep
           /\ l' = l + 1 /\ UNCHANGED <<tid, cf, user, secret, kprev, n, op, nst, reps, els, estab, lastret, expc, smdown, dead>>

\* stanzas received while the session was up count towards the next <resume h/>
T_Sess == /\ Ev("sess")
          /\ keep' = IF E.up THEN [keep EXCEPT !.inbound = @ + E.handled] ELSE keep
          \* C13 (shared trace): on an established session - first or re-established - the client receives
          /\ verdicts' = IF dead \/ ~E.up \/ E.handled = E.nst THEN verdicts
                         ELSE AddV(<<V("C13", "client-keeps-receiving-on-the-new-connection", op, [conn |-> n, op |-> op, delivered |-> E.nst, handled |-> E.handled])>>)
          /\ l' = l + 1 /\ UNCHANGED <<tid, cf, user, secret, kprev, n, op, nst, reps, els, estab, lastret, expc, bindjid, smdown, dead>>

\* the server dropped an established connection: the loss must be noticed (Disconnected event)
T_Lost == /\ Ev("lost")
          /\ verdicts' = IF dead \/ lastret # "ok" \/ E.noticed THEN verdicts
                         ELSE AddV(<<V("C13", "loss-of-a-re-established-connection-is-noticed", op, [conn |-> n, op |-> op])>>)
          /\ l' = l + 1 /\ UNCHANGED <<tid, cf, user, secret, keep, kprev, n, op, nst, reps, els, estab, lastret, expc, bindjid, smdown, dead>>

T_Crash == /\ Ev("crash")
           /\ verdicts' = AddV(<<V("C03", "connecting-never-panics", StageSig(0), [msg |-> E.msg, replies |-> reps, cfg |-> cf])>>)
           /\ dead' = TRUE
           /\ l' = l + 1 /\ UNCHANGED <<tid, cf, user, secret, keep, kprev, n, op, nst, reps, els, estab, lastret, expc, bindjid, smdown>>

T_Skip == /\ (Ev("fin") \/ Ev("note") \/ Ev("tls") \/ Ev("errcb") \/ Ev("hdl") \/ Ev("newclient"))
          /\ l' = l + 1 /\ UNCHANGED <<tid, cf, user, secret, keep, kprev, n, op, nst, reps, els, estab, lastret, expc, bindjid, smdown, dead, verdicts>>

T_End == /\ Ev("end") /\ PrintT(<<"VERDICTS", ToJson(VL!All)>>) /\ PrintT(<<"CONSUMED", l>>)
         /\ l' = l + 1 /\ UNCHANGED <<tid, cf, user, secret, keep, kprev, n, op, nst, reps, els, estab, lastret, expc, bindjid, smdown, dead, verdicts>>

TraceInit == /\ l = 1 /\ tid = 0 /\ cf = [insecure |-> FALSE, sm |-> FALSE, tls |-> "none", cred |-> "password", ws |-> FALSE, wss |-> FALSE, skiptls |-> FALSE, sessalways |-> FALSE]
             /\ user = <<>> /\ secret = <<>> /\ keep = N!Keep0 /\ kprev = N!Keep0 /\ n = 0 /\ op = "" /\ nst = 0 /\ reps = <<>> /\ els = <<>>
             /\ estab = 0 /\ lastret = "" /\ expc = N!NewConn(0) /\ bindjid = "" /\ smdown = FALSE /\ dead = FALSE /\ verdicts = 0 /\ VL!InitV
TraceNext == T_Reset \/ T_Op \/ T_Rep \/ T_El \/ T_Event \/ T_Ret \/ T_State \/ T_Sess \/ T_Lost \/ T_Crash \/ T_Skip \/ T_End
TraceSpec == TraceInit /\ [][TraceNext]_tvars
=============================================================================
