------------------------------ MODULE Address ------------------------------
(***************************************************************************)
(* Reference semantics of server-address normalisation and transport       *)
(* choice (network.go ensurePort, transport.go NewClientTransport /        *)
(* NewComponentTransport).  An address is abstracted to its *form*; the    *)
(* harness concretises each form with many literals.                       *)
(***************************************************************************)
EXTENDS Integers, Sequences, TLC, Json

CONSTANTS Emit
VARIABLES f
vars == <<f>>

Schemes == {"none", "ws", "wss"}
V6Hosts == {"v6full", "v6comp", "v6mapped", "v6loop", "v6zone"}
OtherHosts == {"dns", "dnsdot", "digits", "single", "ipv4"}
Who == {"client", "component"}

\* bare IPv6 directly followed by :port is inherently ambiguous -> not a form
Forms == { [scheme |-> s, host |-> h, br |-> b, port |-> p, who |-> w] :
             s \in Schemes, h \in V6Hosts \cup OtherHosts, b \in BOOLEAN, p \in {"none", "given"}, w \in Who }
WellFormed(x) == /\ (x.br => x.host \in V6Hosts)
                 /\ ~(x.host \in V6Hosts /\ ~x.br /\ x.port = "given")
                 /\ (x.scheme # "none" => ~x.br \/ x.host \in V6Hosts)

DefaultPort == 5222

(* the expected observable result *)
Normalise(x) ==
    IF x.scheme \in {"ws", "wss"}
    THEN [kind |-> IF x.who = "client" THEN "ws" ELSE "refused"]
    ELSE [kind |-> "xmpp",
          hostKept |-> TRUE,                       \* the dialled host is the given host (brackets stripped)
          portIs |-> IF x.port = "given" THEN "given" ELSE "default",
          dialable |-> TRUE]                       \* net.SplitHostPort accepts it

Init == f \in {x \in Forms : WellFormed(x)}
Next == UNCHANGED f
Spec == Init /\ [][Next]_vars

C20_ComponentsRefuseWs == (f.scheme \in {"ws", "wss"} /\ f.who = "component") => Normalise(f).kind = "refused"
C20_ClientsGetWs == (f.scheme \in {"ws", "wss"} /\ f.who = "client") => Normalise(f).kind = "ws"
C20_DefaultOnlyWhenNone == (Normalise(f).kind = "xmpp") => (Normalise(f).portIs = "default" <=> f.port = "none")
EmitInv == IF Emit THEN PrintT(<<"B", ToJson(f)>>) ELSE TRUE
=============================================================================
