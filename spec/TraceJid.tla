------------------------------ MODULE TraceJid ------------------------------
(* Trace monitor for C15: NewJid / Full / Bare of the real code, on class   *)
(* strings, against Jid!Parse.                                              *)
EXTENDS Integers, Sequences, TLC, Json, IOUtils

Trace == ndJsonDeserialize(IOEnv.VERIF_TRACE)
VL == INSTANCE VerdictLib

VARIABLES l, verdicts, nasserted
tvars == <<l, verdicts, nasserted>>
AddV(vs) == IF VL!Record(vs) THEN verdicts + Len(vs) ELSE verdicts   \* verdicts: a counter; the records live in a TLC register

J == INSTANCE Jid WITH Classes <- {}, MaxLen <- 0, Emit <- FALSE, s <- <<>>

Verdict(clause, sig, tid, detail) == [prop |-> "C15", clause |-> clause, sig |-> sig, tid |-> tid, idx |-> l, detail |-> detail]
Ev(n) == l <= Len(Trace) /\ Trace[l].ev = n

Rec(x) == [ok |-> x.ok, n |-> x.n, d |-> x.d, r |-> x.r]
\* a coarse shape of the input, used in verdict signatures
Shape(x) == [at |-> J!FirstAt(x) > 0, sl |-> J!FirstSl(x) > 0]

T_Jid == /\ Ev("jid")
         /\ LET e == Trace[l]
                x == e.s
                asserted == J!Asserted(x) /\ ~J!DomainUnasserted(x)
                want == J!Parse(x)
                got == Rec(e)
                v1 == IF ~asserted \/ got.ok = want.ok THEN <<>> ELSE
                        <<Verdict(IF want.ok THEN "well-formed-jid-accepted" ELSE "malformed-jid-rejected",
                                  IF want.ok THEN "accept" ELSE "reject", e.tid, [s |-> x, got |-> got, want |-> want, concrete |-> e.c])>>
                v2 == IF ~asserted \/ ~got.ok \/ ~want.ok \/ got = want THEN <<>> ELSE
                        <<Verdict("parts-are-local-domain-resource", "parts", e.tid, [s |-> x, got |-> got, want |-> want, concrete |-> e.c])>>
                \* formatting: parsing Full()/Bare() of an accepted JID gives the same JID back
                v3 == IF ~asserted \/ ~got.ok \/ Rec(e.fullre) = got THEN <<>> ELSE
                        <<Verdict("full-reparses-to-same-jid", IF got.n = <<>> THEN "domain-jid" ELSE "local-jid", e.tid,
                                  [jid |-> got, full |-> e.full, reparsed |-> Rec(e.fullre), concrete |-> e.c])>>
                v4 == IF ~asserted \/ ~got.ok \/ Rec(e.barere) = J!BareOf(got) THEN <<>> ELSE
                        <<Verdict("bare-reparses-to-bare-jid", IF got.n = <<>> THEN "domain-jid" ELSE "local-jid", e.tid,
                                  [jid |-> got, bare |-> e.bare, reparsed |-> Rec(e.barere), concrete |-> e.c])>>
            IN /\ verdicts' = AddV(v1 \o v2 \o v3 \o v4)
               /\ nasserted' = nasserted + (IF asserted THEN 1 ELSE 0)
         /\ l' = l + 1

T_End == /\ Ev("end")
         /\ PrintT(<<"VERDICTS", ToJson(VL!All)>>)
         /\ PrintT(<<"ASSERTED", nasserted>>)
         /\ PrintT(<<"CONSUMED", l>>)
         /\ l' = l + 1 /\ UNCHANGED <<verdicts, nasserted>>

TraceInit == l = 1 /\ verdicts = 0 /\ VL!InitV /\ nasserted = 0
TraceNext == T_Jid \/ T_End
TraceSpec == TraceInit /\ [][TraceNext]_tvars
=============================================================================
