---- MODULE MC_IQRoutes ----
EXTENDS IQRoutes
ReqsTwo == {"r1", "r2"}
ReqsOne == {"r1"}
IdDistinct == [r \in {"r1", "r2"} |-> IF r = "r1" THEN 1 ELSE 2]
IdClash == [r \in {"r1", "r2"} |-> 1]
IdOne == [r \in {"r1"} |-> 1]
====
