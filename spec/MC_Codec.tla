---- MODULE MC_Codec ----
EXTENDS Codec
AllAttrSets == SUBSET {"type", "id", "from", "to", "lang"}
SomeAttrSets == {{}, {"id"}, {"type", "id", "from", "to", "lang"}, {"from", "to"}, {"lang"}, {"type"}}
FewAttrSets == {{"id"}, {"type", "id", "from", "to", "lang"}}
MsgExtsAll == {"oob", "rreq", "rrcv", "markable", "mrcv", "mdisp", "mack", "active", "composing", "gone", "inactive", "paused", "nps", "nostore", "nocopy", "store",
               "xbody", "xsubject", "xthread", "xerror"}
MsgExtsSome == {"oob", "rreq", "rrcv", "mrcv", "active", "nostore", "xbody", "xerror"}
PresExtsAll == {"muc", "xshow", "xstatus", "xpriority", "xperror"}
IQPl == {"version", "discoinfo", "discoitems", "bind", "roster", "node"}
TCAll == {"plain", "lt", "gt", "amp", "quot", "cdata", "lead", "trail", "nonasc", "mixed", "ws", "ctrl", "dense"}
NoneSet == {}
TCMixed == {"mixed"}
TCSome == {"plain", "lt", "amp", "mixed", "ws", "dense"}
====
