SPECIFICATION HSpec
CONSTANTS
  Names <- HNames
  TypeSets <- HTypes
  NsSets <- HNs
  AddrKinds <- AddrQuick
  MaxRoutes = 2
  Emit = TRUE
  HPackets <- HPacketsDef
  MaxDisp = 2
INVARIANTS C06_RegistrationAppends C06_LateRouteIsUsed HEmitInv
CHECK_DEADLOCK FALSE
