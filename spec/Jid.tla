-------------------------------- MODULE Jid --------------------------------
(***************************************************************************)
(* Reference semantics of JID parsing and formatting (stanza/jid.go), over *)
(* strings abstracted to sequences of character classes:                   *)
(*   "a"  ordinary character        "at" the character @                  *)
(*   "sl" the character /            "sp" whitespace                        *)
(*   "bad" a character forbidden in the local part: ' " : < >               *)
(* The harness concretises every class with many concrete runes and maps   *)
(* results back to classes, so one abstract string stands for many strings.*)
(***************************************************************************)
EXTENDS Integers, Sequences, TLC, Json

CONSTANTS Classes, MaxLen, Emit
VARIABLES s
vars == <<s>>

\* ---- helpers on sequences
IndexOf(seq, c) == IF \E i \in 1..Len(seq) : seq[i] = c
                   THEN CHOOSE i \in 1..Len(seq) : seq[i] = c /\ \A j \in 1..(i - 1) : seq[j] # c
                   ELSE 0
Has(seq, c) == \E i \in 1..Len(seq) : seq[i] = c
HasAny(seq, cs) == \E i \in 1..Len(seq) : seq[i] \in cs

Reject == [ok |-> FALSE, n |-> <<>>, d |-> <<>>, r |-> <<>>]
Accept(n, d, r) == [ok |-> TRUE, n |-> n, d |-> d, r |-> r]

(* Parse, written from the statement of C15: [local@]domain[/resource];    *)
(* the resource is everything after the first '/', and may contain / and @ *)
(* Strings with a '/' before the first '@' are outside the property        *)
(* (RFC 7622 and the library legitimately differ): Asserted(s) is FALSE.   *)
FirstAt(x) == IndexOf(x, "at")
FirstSl(x) == IndexOf(x, "sl")
Asserted(x) == ~(FirstAt(x) > 0 /\ FirstSl(x) > 0 /\ FirstSl(x) < FirstAt(x))

Parse(x) ==
    IF x = <<>> THEN Reject
    ELSE LET a    == FirstAt(x)
             loc  == IF a = 0 THEN <<>> ELSE SubSeq(x, 1, a - 1)
             rest == IF a = 0 THEN x ELSE SubSeq(x, a + 1, Len(x))
             sl   == FirstSl(rest)
             dom  == IF sl = 0 THEN rest ELSE SubSeq(rest, 1, sl - 1)
             res  == IF sl = 0 THEN <<>> ELSE SubSeq(rest, sl + 1, Len(rest))
         IN IF a > 0 /\ loc = <<>> THEN Reject                     \* empty local part before '@'
            ELSE IF dom = <<>> THEN Reject                            \* empty domain
            ELSE IF HasAny(loc, {"sp", "bad", "sl"}) THEN Reject      \* whitespace / forbidden character in local part
            ELSE IF HasAny(dom, {"sp", "at"}) THEN Reject             \* whitespace (or a second @) in the domain
            ELSE Accept(loc, dom, res)

\* whether the statement fixes the answer: forbidden punctuation inside a *domain* is not named by C15
DomainUnasserted(x) ==
    LET a    == FirstAt(x)
        rest == IF a = 0 THEN x ELSE SubSeq(x, a + 1, Len(x))
        sl   == FirstSl(rest)
        dom  == IF sl = 0 THEN rest ELSE SubSeq(rest, 1, sl - 1)
    IN Has(dom, "bad")

Bare(j) == IF j.n = <<>> THEN j.d ELSE j.n \o <<"at">> \o j.d
Full(j) == IF j.r = <<>> THEN Bare(j) ELSE Bare(j) \o <<"sl">> \o j.r
BareOf(j) == Accept(j.n, j.d, <<>>)

\* ---- model: enumerate all class strings up to MaxLen
Init == s = <<>>
Next == Len(s) < MaxLen /\ \E c \in Classes : s' = Append(s, c)
Spec == Init /\ [][Next]_vars

\* ---- model-level theorems (C15): rendering a parsed JID and parsing it again gives the same JID
C15_FullRoundTrip == LET j == Parse(s) IN (j.ok /\ Asserted(s)) => Parse(Full(j)) = j
C15_BareRoundTrip == LET j == Parse(s) IN (j.ok /\ Asserted(s)) => Parse(Bare(j)) = BareOf(j)
C15_RejectsMalformed == /\ ~Parse(<<>>).ok
                        /\ (s # <<>> /\ s[1] = "at") => ~Parse(s).ok
                        /\ (s # <<>> /\ s[Len(s)] = "at" /\ FirstAt(s) = Len(s)) => ~Parse(s).ok
C15_PartsShape == LET j == Parse(s) IN j.ok => /\ j.d # <<>> /\ ~HasAny(j.n, {"at", "sl", "sp", "bad"}) /\ ~HasAny(j.d, {"at", "sl", "sp"})

EmitInv == IF Emit THEN PrintT(<<"B", ToJson([s |-> s])>>) ELSE TRUE
=============================================================================
