----------------------------- MODULE StreamParser -----------------------------
(***************************************************************************)
(* Reference semantics of reading an XMPP stream (stanza/parser.go          *)
(* InitStream + repeated NextPacket and the decoders they dispatch to),     *)
(* over TOKEN sequences: [t |-> "s", ns, local, id, type, from, to] for a   *)
(* start element, [t |-> "e", ns, local] for an end element (character     *)
(* data, comments and processing instructions do not matter).  The first    *)
(* token is the stream's own start element.                                 *)
(*                                                                         *)
(* Expected(toks, complete): one output per top-level child element, in     *)
(* order: its kind and addressing attributes; the stream end tag yields     *)
(* "close"; an element of an unknown namespace or name yields "error", as   *)
(* does the point where the input is damaged or ends.  Outputs are only     *)
(* asserted up to and including the first error.                            *)
(*                                                                         *)
(* The second half of the module is a generator: TLC enumerates stream      *)
(* shapes (which top-level kinds, what they contain - known children,       *)
(* registered extensions, unknown elements, descendants named like the      *)
(* stanza itself, deep nesting) that the harness serialises to bytes.       *)
(***************************************************************************)
EXTENDS Integers, Sequences, FiniteSets, TLC, Json

NSStream == "http://etherx.jabber.org/streams"
NSClient == "jabber:client"
NSComponent == "jabber:component:accept"
NSSASL == "urn:ietf:params:xml:ns:xmpp-sasl"
NSSM == "urn:xmpp:sm:3"

\* kind of a top-level element, or "error"
Classify(ns, local) ==
    CASE ns = NSStream    -> IF local = "features" THEN "features" ELSE IF local = "error" THEN "streamerror" ELSE "error"
      [] ns = NSSASL      -> IF local \in {"success", "failure"} THEN "sasl-" \o local ELSE "error"
      [] ns = NSClient    -> IF local \in {"message", "presence", "iq"} THEN local ELSE "error"
      [] ns = NSComponent -> IF local \in {"message", "presence", "iq", "handshake"} THEN local ELSE "error"
      [] ns = NSSM        -> IF local \in {"enabled", "resumed", "resume", "r", "a", "failed"} THEN "sm-" \o local ELSE "error"
      [] OTHER            -> "error"
IsStanzaKind(k) == k \in {"message", "presence", "iq"}
Out(k, s) == IF IsStanzaKind(k) THEN [kind |-> k, id |-> s.id, type |-> s.type, from |-> s.from, to |-> s.to]
             ELSE [kind |-> k, id |-> "", type |-> "", from |-> "", to |-> ""]
Err == [kind |-> "error", id |-> "", type |-> "", from |-> "", to |-> ""]
Close == [kind |-> "close", id |-> "", type |-> "", from |-> "", to |-> ""]

(* walk the tokens after the stream start: depth 0 = directly inside the stream *)
RECURSIVE Walk(_, _, _, _, _)
Walk(toks, i, depth, cur, outs) ==
    IF i > Len(toks) THEN [outs |-> outs, open |-> depth > 0 \/ cur # <<>>, closed |-> FALSE]
    ELSE LET t == toks[i] IN
         IF t.t = "s"
         THEN IF depth = 0
              THEN LET k == Classify(t.ns, t.local) IN
                   IF k = "error" THEN [outs |-> Append(outs, Err), open |-> FALSE, closed |-> FALSE, stop |-> TRUE]   \* first error: stop asserting
                   ELSE Walk(toks, i + 1, 1, <<Out(k, t)>>, outs)
              ELSE Walk(toks, i + 1, depth + 1, cur, outs)
         ELSE (* end element *)
              IF depth = 0 THEN [outs |-> Append(outs, Close), open |-> FALSE, closed |-> TRUE]                        \* </stream:stream>
              ELSE IF depth = 1 THEN Walk(toks, i + 1, 0, <<>>, outs \o cur)                                         \* a top-level element is complete
              ELSE Walk(toks, i + 1, depth - 1, cur, outs)

\* expected outputs for the token sequence of a stream (first token = stream start)
Expected(toks) ==
    IF toks = <<>> \/ toks[1].t # "s" \/ ~((toks[1].ns = NSStream /\ toks[1].local = "stream")
                                          \/ (toks[1].ns = "urn:ietf:params:xml:ns:xmpp-framing" /\ toks[1].local = "open")) THEN <<Err>>
    ELSE LET w == Walk(toks, 2, 0, <<>>, <<>>) IN
         IF "stop" \in DOMAIN w THEN w.outs
         ELSE w.outs \o <<Err>>      \* the input ends (or is damaged) here: the next read reports an error

\* ---------------------------------------------------------------- generator
CONSTANTS Tops,       \* names of the top-level kinds to generate (see TopName)
          Fills,      \* what an element contains
          MaxElems, Emit
VARIABLES elems
gvars == <<elems>>

TopName(t) ==
    CASE t = "message" -> [ns |-> NSClient, local |-> "message"]   [] t = "presence" -> [ns |-> NSClient, local |-> "presence"]
      [] t = "iq" -> [ns |-> NSClient, local |-> "iq"]             [] t = "features" -> [ns |-> NSStream, local |-> "features"]
      [] t = "streamerror" -> [ns |-> NSStream, local |-> "error"] [] t = "success" -> [ns |-> NSSASL, local |-> "success"]
      [] t = "failure" -> [ns |-> NSSASL, local |-> "failure"]     [] t = "enabled" -> [ns |-> NSSM, local |-> "enabled"]
      [] t = "resumed" -> [ns |-> NSSM, local |-> "resumed"]       [] t = "r" -> [ns |-> NSSM, local |-> "r"]
      [] t = "a" -> [ns |-> NSSM, local |-> "a"]                   [] t = "failed" -> [ns |-> NSSM, local |-> "failed"]
      [] t = "handshake" -> [ns |-> NSComponent, local |-> "handshake"]
      [] t = "cmessage" -> [ns |-> NSComponent, local |-> "message"]
      [] t = "ciq" -> [ns |-> NSComponent, local |-> "iq"]
      [] t = "unknownns" -> [ns |-> "urn:example:unknown", local |-> "message"]
      [] t = "unknownname" -> [ns |-> NSClient, local |-> "bogus"]
      [] t = "smunknown" -> [ns |-> NSSM, local |-> "bogus"]
      [] t = "saslunknown" -> [ns |-> NSSASL, local |-> "challenge"]
S(ns, local) == [t |-> "s", ns |-> ns, local |-> local, id |-> "", type |-> "", from |-> "", to |-> ""]
En(ns, local) == [t |-> "e", ns |-> ns, local |-> local]
Wrap(ns, local, inner) == (<<S(ns, local)>> \o inner) \o <<En(ns, local)>>
X == "urn:example:ext"
\* the content shapes: the harness serialises the same shapes (cmd/driver/c02.go)
FillToks(n, f) ==
    CASE f = "empty"   -> <<>>
      [] f = "text"    -> <<>>
      [] f = "known"   -> Wrap(n.ns, "body", <<>>)
      [] f = "unknown" -> Wrap(X, "x", Wrap(X, "y", <<>>))
      [] f = "same"    -> Wrap(X, "wrapper", Wrap(n.ns, n.local, Wrap(n.ns, "body", <<>>)))       \* a descendant named like the element itself
      [] f = "deep"    -> Wrap(X, "l1", Wrap(X, "l2", Wrap(X, "l3", Wrap(n.ns, n.local, <<>>))))
      [] f = "two"     -> Wrap(X, "x", <<>>) \o Wrap(n.ns, n.local, <<>>)                           \* a direct child named like the element
      [] f = "regext"  -> Wrap("urn:xmpp:receipts", "request", <<>>)   \* children with REGISTERED extension names (the harness draws them from the registry, with the attributes their types declare)
      [] f = "errcond" -> Wrap(n.ns, "error", Wrap("urn:ietf:params:xml:ns:xmpp-stanzas", "gone", <<>>)     \* <error/> with a defined condition
                                               \o Wrap("urn:ietf:params:xml:ns:xmpp-stanzas", "text", <<>>))  \* (the harness draws it from all 23) and a text
ElemToks(e) == LET n == TopName(e.top) IN Wrap(n.ns, n.local, FillToks(n, e.fill))
RECURSIVE Flat(_)
Flat(es) == IF es = <<>> THEN <<>> ELSE ElemToks(Head(es)) \o Flat(Tail(es))
StreamToks(es) == <<S(NSStream, "stream")>> \o Flat(es)

GInit == elems = <<>>
GNext == /\ Len(elems) < MaxElems
         /\ \E t \in Tops, f \in Fills : elems' = Append(elems, [top |-> t, fill |-> f])
GSpec == GInit /\ [][GNext]_gvars

\* the reference parser applied to the generator's own token rendering: one output per element, right kind,
\* whatever the element contains; cut at the first element of unknown namespace / name
FirstBad == IF \E i \in 1..Len(elems) : Classify(TopName(elems[i].top).ns, TopName(elems[i].top).local) = "error"
            THEN CHOOSE i \in 1..Len(elems) : Classify(TopName(elems[i].top).ns, TopName(elems[i].top).local) = "error"
                                              /\ \A j \in 1..(i - 1) : Classify(TopName(elems[j].top).ns, TopName(elems[j].top).local) # "error"
            ELSE 0
C02_OnePacketPerTopLevelElement ==
    LET ex == Expected(StreamToks(elems)) IN
    IF FirstBad = 0
    THEN /\ Len(ex) = Len(elems) + 1 /\ ex[Len(ex)].kind = "error"
         /\ \A i \in 1..Len(elems) : ex[i].kind = Classify(TopName(elems[i].top).ns, TopName(elems[i].top).local)
    ELSE /\ Len(ex) = FirstBad /\ ex[FirstBad].kind = "error"
         /\ \A i \in 1..(FirstBad - 1) : ex[i].kind = Classify(TopName(elems[i].top).ns, TopName(elems[i].top).local)
C02_CloseIsAPacket == Expected(StreamToks(elems) \o <<En(NSStream, "stream")>>)[Len(elems) + 1].kind \in {"close", "error"}
EmitInv == IF Emit /\ elems # <<>> THEN PrintT(<<"B", ToJson([elems |-> elems])>>) ELSE TRUE
=============================================================================
