---- MODULE MC_Session ----
EXTENDS Session
SrvQuick == {"msg", "iqget", "r"}
SrvC05 == {"msg", "pres", "iqget", "iqset", "iqres", "iqerr", "r", "feat"}
SrvC09 == {"msg", "pres", "iqget", "r", "feat"}
SrvC10 == {"msg"}
SrvFull == {"msg", "pres", "iqget", "iqres", "r", "feat"}
NoneSet == {}
SendOne == {<<"send", "msg">>}
SendA == {<<"send", "a">>}
SendQuick == {<<"send", "msg">>, <<"raw", "msg">>, <<"send", "r">>, <<"send", "a">>}
SendC10 == {<<"send", "msg">>, <<"raw", "msg">>, <<"iq", "iq">>, <<"send", "r">>, <<"send", "a">>, <<"raw", "r">>}
====
