SPECIFICATION Spec
CONSTANTS
  Params <- ParamsThorough
  Ns <- NsSmall
  MaxOps = 2
  Emit = TRUE
INVARIANTS C19_Bounded C19_DelayMonotone C19_DelayIsMinCapExp EmitInv
PROPERTIES C19_WaitsNonDecreasing C19_QueryStateless
VIEW View
CHECK_DEADLOCK FALSE
