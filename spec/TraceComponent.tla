---------------------------- MODULE TraceComponent ----------------------------
(* Trace monitor for component connections: C16 and the component clause of C05 *)
EXTENDS Integers, Sequences, FiniteSets, TLC, Json, IOUtils
Trace == ndJsonDeserialize(IOEnv.VERIF_TRACE)
VL == INSTANCE VerdictLib
VARIABLES l, tid, n, idc, reply, hs, estab, sent, hseq, open, lastout, verdicts
tvars == <<l, tid, n, idc, reply, hs, estab, sent, hseq, open, lastout, verdicts>>
AddV(vs) == IF VL!Record(vs) THEN verdicts + Len(vs) ELSE verdicts
V(prop, clause, sig, detail) == [prop |-> prop, clause |-> clause, sig |-> sig, tid |-> tid, idx |-> l, detail |-> detail]
Ev(x) == l <= Len(Trace) /\ Trace[l].ev = x
E == Trace[l]
Conn == IF n > 1 THEN "connN" ELSE "conn1"

T_Reset == /\ Ev("reset") /\ tid' = E.tid /\ n' = 0 /\ idc' = "" /\ reply' = "" /\ hs' = <<>> /\ estab' = 0 /\ sent' = <<>> /\ hseq' = <<>>
           /\ open' = "" /\ lastout' = "" /\ l' = l + 1 /\ UNCHANGED verdicts
T_Op == /\ Ev("op") /\ n' = E.n /\ idc' = E.idc /\ reply' = E.reply /\ hs' = <<>> /\ estab' = 0 /\ sent' = <<>> /\ hseq' = <<>> /\ open' = ""
        /\ l' = l + 1 /\ UNCHANGED <<tid, lastout, verdicts>>
T_El == /\ Ev("cliel")
        /\ hs' = IF E.k = "handshake" THEN Append(hs, [ok |-> E.digestok, lower |-> E.lowerhex]) ELSE hs
        /\ l' = l + 1 /\ UNCHANGED <<tid, n, idc, reply, estab, sent, hseq, open, lastout, verdicts>>
T_Event == /\ Ev("event") /\ estab' = IF E.state = 2 THEN estab + 1 ELSE estab
           /\ l' = l + 1 /\ UNCHANGED <<tid, n, idc, reply, hs, sent, hseq, open, lastout, verdicts>>
T_Ret == /\ Ev("ret")
         /\ LET d == [conn |-> n, idclass |-> idc, reply |-> reply, out |-> E.out, handshakes |-> hs, established |-> estab]
                want == IF reply = "handshake" THEN "ok" ELSE "err"
                v1 == IF Len(hs) = 1 /\ hs[1].ok /\ hs[1].lower THEN <<>>
                      ELSE <<V("C16", IF Len(hs) = 1 /\ ~hs[1].lower THEN "digest-is-lower-case-hex" ELSE "digest-is-sha1-of-stream-id-and-secret", idc \o "/" \o Conn, d)>>
                v2 == IF E.out = want THEN <<>>
                      ELSE <<V("C16", IF E.out = "hang" THEN "connecting-never-hangs"
                                      ELSE IF want = "ok" THEN "established-when-the-server-answers-handshake" ELSE "any-other-reply-is-an-error", reply, d)>>
                v3 == IF (estab >= 1) = (reply = "handshake") /\ estab <= 1 THEN <<>>
                      ELSE <<V("C16", "established-state-only-after-the-servers-handshake", reply, d)>>
            IN verdicts' = AddV(v1 \o v2 \o v3)
         /\ lastout' = E.out
         /\ l' = l + 1 /\ UNCHANGED <<tid, n, idc, reply, hs, estab, sent, hseq, open>>
T_Srv == /\ Ev("srv") /\ sent' = Append(sent, E.tag)
         /\ l' = l + 1 /\ UNCHANGED <<tid, n, idc, reply, hs, estab, hseq, open, lastout, verdicts>>
\* handlers run one at a time, in arrival order
T_Hb == /\ Ev("hb")
        /\ verdicts' = IF open = "" THEN verdicts ELSE AddV(<<V("C05", "component-routes-in-arrival-order-one-at-a-time", "overlap", [running |-> open, started |-> E.tag])>>)
        /\ open' = E.tag /\ hseq' = Append(hseq, E.tag)
        /\ l' = l + 1 /\ UNCHANGED <<tid, n, idc, reply, hs, estab, sent, lastout>>
T_He == /\ Ev("he") /\ open' = IF open = E.tag THEN "" ELSE open
        /\ l' = l + 1 /\ UNCHANGED <<tid, n, idc, reply, hs, estab, sent, hseq, lastout, verdicts>>
T_Quiet == /\ Ev("quiet")
           /\ LET d == [sent |-> sent, handled |-> hseq, reply |-> reply]
                  v1 == IF reply = "handshake" \/ hseq = <<>> THEN <<>> ELSE <<V("C16", "nothing-routed-unless-established", reply, d)>>
                  v2 == IF lastout # "ok" \/ hseq = sent THEN <<>>
                        ELSE <<V("C05", IF Len(hseq) = Len(sent) THEN "component-routes-in-arrival-order-one-at-a-time" ELSE "every-stanza-reaches-the-router-exactly-once",
                                 IF Len(hseq) = Len(sent) THEN "order" ELSE "count", d)>>
              IN verdicts' = AddV(v1 \o v2)
           /\ l' = l + 1 /\ UNCHANGED <<tid, n, idc, reply, hs, estab, sent, hseq, open, lastout>>
T_Crash == /\ Ev("crash") /\ verdicts' = AddV(<<V("C16", "nothing-panics", reply, [msg |-> E.msg])>>)
           /\ l' = l + 1 /\ UNCHANGED <<tid, n, idc, reply, hs, estab, sent, hseq, open, lastout>>
T_Skip == /\ (Ev("fin") \/ Ev("note") \/ Ev("errcb") \/ Ev("srvrep"))
          /\ l' = l + 1 /\ UNCHANGED <<tid, n, idc, reply, hs, estab, sent, hseq, open, lastout, verdicts>>
T_End == /\ Ev("end") /\ PrintT(<<"VERDICTS", ToJson(VL!All)>>) /\ PrintT(<<"CONSUMED", l>>)
         /\ l' = l + 1 /\ UNCHANGED <<tid, n, idc, reply, hs, estab, sent, hseq, open, lastout, verdicts>>
TraceInit == /\ l = 1 /\ tid = 0 /\ n = 0 /\ idc = "" /\ reply = "" /\ hs = <<>> /\ estab = 0 /\ sent = <<>> /\ hseq = <<>> /\ open = "" /\ lastout = ""
             /\ verdicts = 0 /\ VL!InitV
TraceNext == T_Reset \/ T_Op \/ T_El \/ T_Event \/ T_Ret \/ T_Srv \/ T_Hb \/ T_He \/ T_Quiet \/ T_Crash \/ T_Skip \/ T_End
TraceSpec == TraceInit /\ [][TraceNext]_tvars
=============================================================================
