-------------------------- MODULE TraceStreamParser --------------------------
(* Trace monitor for C02: the packets the library returned for an input,   *)
(* against StreamParser!Expected applied to the tokens of that input.      *)
(* mode "exact": well-formed and truncated inputs - the outputs up to the  *)
(* first error must be exactly the expected ones; mode "prefix": damaged   *)
(* inputs - the elements complete before the damage must still come out.   *)
EXTENDS Integers, Sequences, FiniteSets, TLC, Json, IOUtils
Trace == ndJsonDeserialize(IOEnv.VERIF_TRACE)
VL == INSTANCE VerdictLib
VARIABLES l, verdicts
tvars == <<l, verdicts>>
P == INSTANCE StreamParser WITH Tops <- {}, Fills <- {}, MaxElems <- 0, Emit <- FALSE, elems <- <<>>
AddV(vs) == IF VL!Record(vs) THEN verdicts + Len(vs) ELSE verdicts
V(clause, sig, tid, detail) == [prop |-> "C02", clause |-> clause, sig |-> sig, tid |-> tid, idx |-> l, detail |-> detail]
Ev(x) == l <= Len(Trace) /\ Trace[l].ev = x
E == Trace[l]
ToOut(o) == [kind |-> o[1], id |-> o[2], type |-> o[3], from |-> o[4], to |-> o[5]]
Outs(a) == [i \in 1..Len(a) |-> ToOut(a[i])]
Kinds(q) == [i \in 1..Len(q) |-> q[i].kind]
FirstDiff(a, b) == IF \E i \in 1..Len(a) : i > Len(b) \/ a[i] # b[i]
                   THEN CHOOSE i \in 1..Len(a) : (i > Len(b) \/ a[i] # b[i]) /\ \A j \in 1..(i - 1) : j <= Len(b) /\ a[j] = b[j]
                   ELSE Len(a) + 1

T_Parse == /\ Ev("parse")
           /\ LET ex == P!Expected(E.toks)
                  got == Outs(E.outs)
                  n == IF E.mode = "exact" THEN Len(ex) ELSE (IF E.cut < Len(ex) THEN E.cut ELSE Len(ex))
                  exN == SubSeq(ex, 1, n)
                  gotN == SubSeq(got, 1, IF Len(got) < n THEN Len(got) ELSE n)
                  d == [expected |-> exN, got |-> got, input |-> E.x, seg |-> E.seg, mode |-> E.mode]
                  i == FirstDiff(exN, gotN)
                  what == IF i > Len(exN) THEN "-" ELSE exN[i].kind
                  v0 == (IF E.panic THEN <<V("reading-never-panics", E.mode, E.tid, [msg |-> E.panicmsg, input |-> E.x])>> ELSE <<>>) \o
                        (IF E.hang \/ E.slow THEN <<V("reading-returns-in-bounded-time", E.mode, E.tid, [input |-> E.x])>> ELSE <<>>)
                  v1 == IF E.panic \/ E.hang \/ exN = gotN THEN <<>> ELSE
                          <<V(IF Kinds(exN) = Kinds(gotN) THEN "addressing-attributes-are-those-of-the-element"
                              ELSE IF E.mode = "prefix" THEN "elements-complete-before-the-damage-are-still-returned"
                              ELSE IF i <= Len(gotN) /\ gotN[i].kind = "error" THEN "one-packet-per-top-level-element-whatever-it-contains"
                              ELSE IF what = "error" THEN "unknown-namespace-or-name-yields-an-error"
                              ELSE "packet-kind-is-that-of-the-element", what \o "/" \o E.mode, E.tid, d)>>
                  v2 == IF E.mode # "exact" \/ E.panic \/ E.hang \/ exN # gotN \/ Len(got) = Len(ex) THEN <<>> ELSE
                          <<V("exactly-one-packet-per-element-then-an-error", "extra", E.tid, d)>>
              IN verdicts' = AddV(v0 \o v1 \o v2)
           /\ l' = l + 1
T_End == /\ Ev("end") /\ PrintT(<<"VERDICTS", ToJson(VL!All)>>) /\ PrintT(<<"CONSUMED", l>>)
         /\ l' = l + 1 /\ UNCHANGED verdicts
TraceInit == l = 1 /\ verdicts = 0 /\ VL!InitV
TraceNext == T_Parse \/ T_End
TraceSpec == TraceInit /\ [][TraceNext]_tvars
=============================================================================
