------------------------------ MODULE Backoff ------------------------------
(***************************************************************************)
(* Reference semantics of the reconnection back-off (backoff.go).          *)
(* Actions = the three entry points: Wait (stateful duration()/wait()),    *)
(* Reset, Query(n) (stateless durationForAttempt(n)).                      *)
(* Durations are integers in milliseconds.  Arithmetic saturates at Cap so *)
(* that attempt numbers may be astronomically large.                       *)
(***************************************************************************)
EXTENDS Integers, Sequences, TLC, Json

CONSTANTS Params,   \* set of [base, factor, cap, nojitter] records (0 = use default)
          Ns,       \* attempt numbers tried by Query
          MaxOps,
          Emit

VARIABLES p, attempt, d, lastWait, hist
vars == <<p, attempt, d, lastWait, hist>>

DefaultBase == 20
DefaultFactor == 2
DefaultCap == 180000

Base(c)   == IF c.base = 0 THEN DefaultBase ELSE c.base
Factor(c) == IF c.factor = 0 THEN DefaultFactor ELSE c.factor
Cap(c)    == IF c.cap = 0 THEN DefaultCap ELSE c.cap

Min(a, b) == IF a < b THEN a ELSE b

\* min(cap, base * factor^n), computed without ever exceeding cap * factor
RECURSIVE Sat(_, _, _, _)
Sat(cur, f, cap, n) == IF n = 0 \/ cur >= cap THEN Min(cur, cap) ELSE Sat(cur * f, f, cap, n - 1)
Delay(c, n) == IF Factor(c) = 1 THEN Min(Base(c), Cap(c))
               ELSE Sat(Base(c), Factor(c), Cap(c), Min(n, 64))

\* what a returned duration may be (C19)
Allowed(c, n, x) == IF c.nojitter THEN x = Delay(c, n) ELSE 0 <= x /\ x <= Delay(c, n)

\* the model returns representative values of the allowed interval
Pick(c, n) == IF c.nojitter THEN {Delay(c, n)} ELSE {0, Delay(c, n) \div 2, Delay(c, n)}

Init == /\ p \in Params /\ attempt = 0 /\ d = 0 /\ lastWait = -1 /\ hist = <<>>

Wait == /\ Len(hist) < MaxOps
        /\ d' \in Pick(p, attempt)
        /\ attempt' = attempt + 1
        /\ lastWait' = d'
        /\ hist' = Append(hist, [op |-> "wait", n |-> 0])
        /\ UNCHANGED p
Reset == /\ Len(hist) < MaxOps
         /\ attempt' = 0 /\ lastWait' = -1
         /\ hist' = Append(hist, [op |-> "reset", n |-> 0])
         /\ UNCHANGED <<p, d>>
Query(n) == /\ Len(hist) < MaxOps
            /\ d' \in Pick(p, n)
            /\ hist' = Append(hist, [op |-> "query", n |-> n])
            /\ UNCHANGED <<p, attempt, lastWait>>
Next == Wait \/ Reset \/ \E n \in Ns : Query(n)
Spec == Init /\ [][Next]_vars

\* ---- properties (C19)
C19_Bounded == 0 <= d /\ d <= Cap(p)
C19_DelayMonotone == \A n \in Ns : Delay(p, n) <= Delay(p, n + 1) /\ Delay(p, n) <= Cap(p) /\ Delay(p, n) >= 0
\* factor^n, stopping as soon as it exceeds lim (factor^n itself would overflow TLC's 32-bit integers)
RECURSIVE SPow(_, _, _, _)
SPow(cur, f, n, lim) == IF n = 0 \/ cur > lim THEN cur ELSE SPow(cur * f, f, n - 1, lim)
C19_DelayIsMinCapExp == \A n \in 0..8 : \* the direct formula, wherever it cannot overflow TLC's integers
    LET pw == SPow(1, Factor(p), n, 100000) IN
    (pw <= 100000 /\ Base(p) <= 10000 /\ Factor(p) <= 10000) => Delay(p, n) = Min(Cap(p), Base(p) * pw)
C19_WaitsNonDecreasing == [][(p.nojitter /\ lastWait >= 0 /\ lastWait' >= 0) => lastWait' >= lastWait]_vars
C19_QueryStateless == [][\A n \in Ns : Query(n) => attempt' = attempt]_vars

Terminal == Len(hist) = MaxOps
EmitInv == IF Emit /\ Terminal THEN PrintT(<<"B", ToJson([p |-> p, ops |-> hist])>>) ELSE TRUE
\* d is an output only: leave it out of the fingerprint so each history is emitted once
View == <<p, attempt, hist>>
=============================================================================
