-------------------------- MODULE TraceUnAckQueue --------------------------
(***************************************************************************)
(* Trace monitor: checks traces recorded from the real stanza.UnAckQueue   *)
(* against the reference functions of UnAckQueue.tla.                      *)
(* One event per public call, logged after the call returned, with the     *)
(* returned value and the whole queue content (ids, payload tags).         *)
(* The monitor never blocks: a call whose logged result is not what the    *)
(* reference allows from the current model state adds a verdict, and the   *)
(* model state is re-synchronised to the logged queue so that the rest of  *)
(* the trace is still judged.                                              *)
(***************************************************************************)
EXTENDS Integers, Sequences, TLC, Json, IOUtils

Trace == ndJsonDeserialize(IOEnv.VERIF_TRACE)
VL == INSTANCE VerdictLib

VARIABLES l, tid, q, verdicts
tvars == <<l, tid, q, verdicts>>
AddV(vs) == IF VL!Record(vs) THEN verdicts + Len(vs) ELSE verdicts   \* verdicts: a counter; the records live in a TLC register

Q == INSTANCE UnAckQueue WITH MaxLen <- 0, MaxOps <- 0, KSet <- {}, IdSlack <- 1, PSet <- {}, Emit <- FALSE,
                              ret <- 0, pushed <- <<>>, popped <- <<>>, hist <- <<>>, nextp <- 0

\* logged queue: array of [id, p] pairs -> sequence of records
ToQ(a) == [i \in 1..Len(a) |-> [id |-> a[i][1], p |-> a[i][2]]]
\* logged return value
ToRet(r) == CASE r.kind = "nil"  -> Q!Nil
              [] r.kind = "none" -> Q!None
              [] r.kind = "bool" -> Q!Bool(r.v)
              [] r.kind = "one"  -> Q!One([id |-> r.v[1], p |-> r.v[2]])
              [] r.kind = "many" -> Q!Many(ToQ(r.v))

Verdict(clause, detail) == [prop |-> "C17", clause |-> clause, sig |-> detail.op, tid |-> tid, idx |-> l, detail |-> detail]

Ev(n) == l <= Len(Trace) /\ Trace[l].ev = n

IdsIncreasing(s) == \A i \in 1..(Len(s) - 1) : s[i].id < s[i + 1].id

T_Reset == /\ Ev("reset")
           /\ tid' = Trace[l].tid /\ q' = <<>> /\ l' = l + 1
           /\ UNCHANGED verdicts

T_Op == /\ Ev("op")
        /\ LET e    == Trace[l]
               lq   == ToQ(e.q)
               lret == ToRet(e.ret)
               exp  == CASE e.op = "pop"   -> Q!RefPop(q)
                         [] e.op = "peek"  -> Q!RefPeek(q)
                         [] e.op = "popn"  -> Q!RefPopN(q, e.k)
                         [] e.op = "peekn" -> Q!RefPeekN(q, e.k)
                         [] e.op = "empty" -> Q!RefEmpty(q)
                         [] OTHER          -> [q |-> q, ret |-> Q!None]
               okState == IF e.op = "push" THEN Q!PushOK(q, lq, e.k) ELSE lq = exp.q
               okRet   == IF e.op = "push" THEN TRUE ELSE lret = exp.ret
               v1 == IF okState THEN <<>> ELSE
                       <<Verdict(IF e.op = "push" THEN "push-appends-with-greater-id"
                                 ELSE IF e.op \in {"peek", "peekn", "empty"} THEN "peek-is-pure"
                                 ELSE "pop-removes-exactly-the-oldest",
                                 [op |-> e.op, k |-> e.k, before |-> q, after |-> lq])>>
               v2 == IF okRet THEN <<>> ELSE
                       <<Verdict("returns-what-reference-fifo-returns",
                                 [op |-> e.op, k |-> e.k, before |-> q, got |-> lret, want |-> exp.ret])>>
               v3 == IF IdsIncreasing(lq) THEN <<>> ELSE
                       <<Verdict("ids-strictly-increasing", [op |-> e.op, after |-> lq])>>
           IN /\ verdicts' = AddV(v1 \o v2 \o v3)
              /\ q' = lq
        /\ l' = l + 1 /\ UNCHANGED tid

T_End == /\ Ev("end")
         /\ PrintT(<<"VERDICTS", ToJson(VL!All)>>)
         /\ PrintT(<<"CONSUMED", l>>)
         /\ l' = l + 1 /\ UNCHANGED <<tid, q, verdicts>>

TraceInit == l = 1 /\ tid = 0 /\ q = <<>> /\ verdicts = 0 /\ VL!InitV
TraceNext == T_Reset \/ T_Op \/ T_End
TraceSpec == TraceInit /\ [][TraceNext]_tvars
=============================================================================
