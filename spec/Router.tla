------------------------------- MODULE Router -------------------------------
(***************************************************************************)
(* Reference semantics of packet routing (router.go: Router.route, Match,  *)
(* nameMatcher, nsTypeMatcher, nsIQMatcher, iqNotImplemented), IQ-result   *)
(* routes excluded (they are IQRoutes.tla).                                *)
(* A route is [name, types, ns]; "-" / {"*"} mean "no such matcher on the route". *)
(***************************************************************************)
EXTENDS Integers, Sequences, FiniteSets, TLC, Json

CONSTANTS Names, TypeSets, NsSets, MaxRoutes, AddrKinds, Emit,
          HPackets, MaxDisp      \* history mode (HSpec): the packets dispatched and how many dispatches per history
VARIABLES table, pkt,
          hist                   \* history mode: the dispatches so far, each with the number of routes registered before it
vars == <<table, pkt, hist>>

NoM == "-"          \* no name matcher
NoS == {"*"}        \* no type / namespace matcher (sets must stay comparable with sets)
RouteKinds == { [name |-> n, types |-> t, ns |-> x] : n \in Names, t \in TypeSets, x \in NsSets }
Tables == UNION { [1..k -> RouteKinds] : k \in 0..MaxRoutes }

Stanzas == {"message", "presence", "iq"}
Packets ==
    { [k |-> "message", type |-> t, pns |-> NoM, addr |-> "both"] : t \in {"", "chat", "normal", "error"} } \cup
    { [k |-> "presence", type |-> t, pns |-> NoM, addr |-> "both"] : t \in {"", "unavailable", "error"} } \cup
    { [k |-> "iq", type |-> t, pns |-> p, addr |-> a] : t \in {"get", "set", "result", "error"}, p \in {"A", "B", "U", NoM}, a \in AddrKinds } \cup
    { [k |-> "nonstanza", type |-> t, pns |-> NoM, addr |-> "both"] : t \in {"features", "smfailed"} }

\* the stanza type a type matcher sees: 'normal' is the default type of a message
EffType(p) == IF p.k = "message" /\ p.type = "" THEN "normal" ELSE p.type

Matches(r, p) ==
    /\ (r.name = NoM \/ r.name = p.k)
    /\ (r.types = NoS \/ (p.k \in Stanzas /\ EffType(p) \in r.types))
    /\ (r.ns = NoS \/ (p.k = "iq" /\ p.pns \in {"A", "B"} /\ p.pns \in r.ns))

FirstMatch(t, p) == IF \E i \in 1..Len(t) : Matches(t[i], p)
                    THEN CHOOSE i \in 1..Len(t) : Matches(t[i], p) /\ \A j \in 1..(i - 1) : ~Matches(t[j], p)
                    ELSE 0

IsRequest(p) == p.k = "iq" /\ p.type \in {"get", "set"}

\* observable result of routing p with table t
Result(t, p) == LET m == FirstMatch(t, p) IN
    [invoked |-> IF m = 0 THEN <<>> ELSE <<m>>,
     errorReply |-> (m = 0 /\ IsRequest(p))]

\* the documentation is silent on matching the namespace of an unregistered payload
Asserted(t, p) == ~(p.pns = "U" /\ \E i \in 1..Len(t) : t[i].ns # NoS)

Init == table \in Tables /\ pkt \in Packets /\ hist = <<>>
Next == UNCHANGED vars
Spec == Init /\ [][Next]_vars

(***************************************************************************)
(* History mode: the route table is not fixed before the first packet.     *)
(* Routes are registered (appended) while packets are being dispatched: a  *)
(* dispatch sees exactly the routes registered before it.                  *)
(***************************************************************************)
HInit == table = <<>> /\ pkt = (CHOOSE p \in HPackets : TRUE) /\ hist = <<>>
HRegister(r) == /\ Len(table) < MaxRoutes /\ table' = Append(table, r) /\ UNCHANGED <<pkt, hist>>
HDispatch(p) == /\ Len(hist) < MaxDisp /\ pkt' = p
                /\ hist' = Append(hist, [after |-> Len(table), pkt |-> p, res |-> Result(table, p)])
                /\ UNCHANGED table
HNext == (\E r \in RouteKinds : HRegister(r)) \/ (\E p \in HPackets : HDispatch(p))
HSpec == HInit /\ [][HNext]_vars
\* registration only appends: every earlier dispatch stays explained by the prefix of the table it saw
C06_RegistrationAppends == \A i \in 1..Len(hist) : hist[i].res = Result(SubSeq(table, 1, hist[i].after), hist[i].pkt)
\* a route registered after a packet was dispatched is used by the next packet it matches
C06_LateRouteIsUsed == \A i \in 1..Len(hist) : \A k \in 1..hist[i].after :
      (Matches(table[k], hist[i].pkt) /\ \A j \in 1..(k - 1) : ~Matches(table[j], hist[i].pkt)) => hist[i].res.invoked = <<k>>
HEmitInv == IF Emit /\ Len(hist) = MaxDisp /\ Len(table) = MaxRoutes
            THEN PrintT(<<"B", ToJson([table |-> table, disp |-> [i \in 1..Len(hist) |-> [after |-> hist[i].after, pkt |-> hist[i].pkt]]])>>) ELSE TRUE

\* ---- model-level theorems (C06)
C06_AtMostOneHandler == Len(Result(table, pkt).invoked) <= 1
C06_ReplyOnlyIfUnhandledRequest == Result(table, pkt).errorReply => (Result(table, pkt).invoked = <<>> /\ IsRequest(pkt))
C06_EmptyRouteCatchesAll == \A i \in 1..Len(table) :
      (table[i] = [name |-> NoM, types |-> NoS, ns |-> NoS]) => (FirstMatch(table, pkt) # 0 /\ FirstMatch(table, pkt) <= i)
\* routes after the first match are irrelevant
C06_LaterRoutesIgnored == \A k \in 1..Len(table) :
      FirstMatch(SubSeq(table, 1, k), pkt) # 0 => FirstMatch(table, pkt) = FirstMatch(SubSeq(table, 1, k), pkt)
C06_NormalIsMessageDefault == (pkt.k = "presence" /\ pkt.type = "") => \A r \in RouteKinds : (r.types = {"normal"} => ~Matches(r, pkt))

EmitInv == IF Emit THEN PrintT(<<"B", ToJson([table |-> table, pkt |-> pkt])>>) ELSE TRUE
=============================================================================
