------------------------------- MODULE Router -------------------------------
(***************************************************************************)
(* Reference semantics of packet routing (router.go: Router.route, Match,  *)
(* nameMatcher, nsTypeMatcher, nsIQMatcher, iqNotImplemented), IQ-result   *)
(* routes excluded (they are IQRoutes.tla).                                *)
(* A route is [name, types, ns]; "-" / {"*"} mean "no such matcher on the route". *)
(***************************************************************************)
EXTENDS Integers, Sequences, FiniteSets, TLC, Json

CONSTANTS Names, TypeSets, NsSets, MaxRoutes, AddrKinds, Emit
VARIABLES table, pkt
vars == <<table, pkt>>

NoM == "-"          \* no name matcher
NoS == {"*"}        \* no type / namespace matcher (sets must stay comparable with sets)
RouteKinds == { [name |-> n, types |-> t, ns |-> x] : n \in Names, t \in TypeSets, x \in NsSets }
Tables == UNION { [1..k -> RouteKinds] : k \in 0..MaxRoutes }

Stanzas == {"message", "presence", "iq"}
Packets ==
    { [k |-> "message", type |-> t, pns |-> NoM, addr |-> "both"] : t \in {"", "chat", "normal", "error"} } \cup
    { [k |-> "presence", type |-> t, pns |-> NoM, addr |-> "both"] : t \in {"", "unavailable", "error"} } \cup
    { [k |-> "iq", type |-> t, pns |-> p, addr |-> a] : t \in {"get", "set", "result", "error"}, p \in {"A", "B", "U", NoM}, a \in AddrKinds } \cup
    { [k |-> "nonstanza", type |-> t, pns |-> NoM, addr |-> "both"] : t \in {"features", "smfailed"} }

\* the stanza type a type matcher sees: 'normal' is the default type of a message
EffType(p) == IF p.k = "message" /\ p.type = "" THEN "normal" ELSE p.type

Matches(r, p) ==
    /\ (r.name = NoM \/ r.name = p.k)
    /\ (r.types = NoS \/ (p.k \in Stanzas /\ EffType(p) \in r.types))
    /\ (r.ns = NoS \/ (p.k = "iq" /\ p.pns \in {"A", "B"} /\ p.pns \in r.ns))

FirstMatch(t, p) == IF \E i \in 1..Len(t) : Matches(t[i], p)
                    THEN CHOOSE i \in 1..Len(t) : Matches(t[i], p) /\ \A j \in 1..(i - 1) : ~Matches(t[j], p)
                    ELSE 0

IsRequest(p) == p.k = "iq" /\ p.type \in {"get", "set"}

\* observable result of routing p with table t
Result(t, p) == LET m == FirstMatch(t, p) IN
    [invoked |-> IF m = 0 THEN <<>> ELSE <<m>>,
     errorReply |-> (m = 0 /\ IsRequest(p))]

\* the documentation is silent on matching the namespace of an unregistered payload
Asserted(t, p) == ~(p.pns = "U" /\ \E i \in 1..Len(t) : t[i].ns # NoS)

Init == table \in Tables /\ pkt \in Packets
Next == UNCHANGED vars
Spec == Init /\ [][Next]_vars

\* ---- model-level theorems (C06)
C06_AtMostOneHandler == Len(Result(table, pkt).invoked) <= 1
C06_ReplyOnlyIfUnhandledRequest == Result(table, pkt).errorReply => (Result(table, pkt).invoked = <<>> /\ IsRequest(pkt))
C06_EmptyRouteCatchesAll == \A i \in 1..Len(table) :
      (table[i] = [name |-> NoM, types |-> NoS, ns |-> NoS]) => (FirstMatch(table, pkt) # 0 /\ FirstMatch(table, pkt) <= i)
\* routes after the first match are irrelevant
C06_LaterRoutesIgnored == \A k \in 1..Len(table) :
      FirstMatch(SubSeq(table, 1, k), pkt) # 0 => FirstMatch(table, pkt) = FirstMatch(SubSeq(table, 1, k), pkt)
C06_NormalIsMessageDefault == (pkt.k = "presence" /\ pkt.type = "") => \A r \in RouteKinds : (r.types = {"normal"} => ~Matches(r, pkt))

EmitInv == IF Emit THEN PrintT(<<"B", ToJson([table |-> table, pkt |-> pkt])>>) ELSE TRUE
=============================================================================
