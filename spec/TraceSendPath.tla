---------------------------- MODULE TraceSendPath ----------------------------
(* Trace monitor for C08 (and C10 under concurrent senders): call results    *)
(* per sender, the wire as the server saw it (sender, index, bytes-equal),   *)
(* the exported queue at quiescence - against SendPath.tla's properties.     *)
EXTENDS Integers, Sequences, FiniteSets, TLC, Json, IOUtils
Trace == ndJsonDeserialize(IOEnv.VERIF_TRACE)
VL == INSTANCE VerdictLib
VARIABLES l, tid, sm, stress, calls, wire, verdicts
tvars == <<l, tid, sm, stress, calls, wire, verdicts>>
AddV(vs) == IF VL!Record(vs) THEN verdicts + Len(vs) ELSE verdicts
V(prop, clause, sig, detail) == [prop |-> prop, clause |-> clause, sig |-> sig, tid |-> tid, idx |-> l, detail |-> detail]
Ev(n) == l <= Len(Trace) /\ Trace[l].ev = n
E == Trace[l]

Senders == {calls[k].s : k \in 1..Len(calls)} \cup {wire[k].s : k \in 1..Len(wire)}
OkIdx(s) == {calls[k].i : k \in {k \in 1..Len(calls) : calls[k].s = s /\ calls[k].ok}}
WireOf(s) == SelectSeq(wire, LAMBDA x : x.s = s)
Mode == IF stress THEN "stress" ELSE "gated"
Tag(s, i) == "g" \o ToString(s) \o "-" \o ToString(i)

Judge(e) ==
    LET bad == SelectSeq(wire, LAMBDA x : ~x.whole)
        v1 == IF bad = <<>> THEN <<>> ELSE
                <<V("C08", "stanza-on-the-wire-whole-never-interleaved", Mode, [first |-> bad[1], n |-> Len(bad)])>>
        per(s) == LET ws == WireOf(s)
                      idx == [k \in 1..Len(ws) |-> ws[k].i]
                      \* (a retransmission legitimately repeats a stanza on the wire, out of the call order: when the server
                      \* answered during the run - e.acks - only loss, wholeness and what is held at the end are judged)
                      dup == ~e.acks /\ \E a, b \in 1..Len(idx) : a # b /\ idx[a] = idx[b]
                      lost == \E i \in OkIdx(s) : ~\E a \in 1..Len(idx) : idx[a] = i
                      extra == \E a \in 1..Len(idx) : idx[a] \notin OkIdx(s) /\ ~e.faulted
                      ooo == ~e.acks /\ \E a, b \in 1..Len(idx) : a < b /\ idx[a] > idx[b]
                  IN (IF dup THEN <<V("C08", "nothing-duplicated", Mode, [s |-> s, wire |-> idx])>> ELSE <<>>) \o
                     (IF lost THEN <<V("C08", "successful-send-is-on-the-wire", Mode, [s |-> s, wire |-> idx, ok |-> OkIdx(s)])>> ELSE <<>>) \o
                     (IF extra THEN <<V("C08", "failed-write-reported-as-error", Mode, [s |-> s, wire |-> idx, ok |-> OkIdx(s)])>> ELSE <<>>) \o
                     (IF ooo THEN <<V("C08", "one-senders-stanzas-in-call-order", Mode, [s |-> s, wire |-> idx])>> ELSE <<>>)
        RECURSIVE All(_)
        All(S) == IF S = {} THEN <<>> ELSE LET s == CHOOSE x \in S : TRUE IN per(s) \o All(S \ {s})
        v2 == All(Senders \ {0})
        v3 == IF ~sm THEN <<>> ELSE
              LET q == e.qtags
                  missing == {<<s, i>> \in {<<c.s, c.i>> : c \in {calls[k] : k \in {k \in 1..Len(calls) : calls[k].ok}}} :
                                  Cardinality({k \in 1..Len(q) : q[k] = Tag(s, i)}) # 1}
              IN (IF missing = {} THEN <<>> ELSE <<V("C10", "every-accepted-stanza-held-once-under-concurrent-senders", Mode, [missing |-> missing, n |-> Len(q)])>>) \o
                 (IF \A k \in 1..(Len(e.qids) - 1) : e.qids[k] < e.qids[k + 1] THEN <<>>
                  ELSE <<V("C10", "held-entries-numbered-increasing", Mode, [qids |-> e.qids])>>)
    IN v1 \o v2 \o v3

T_Reset == /\ Ev("reset") /\ tid' = E.tid /\ sm' = E.sm /\ stress' = E.stress /\ calls' = <<>> /\ wire' = <<>>
           /\ l' = l + 1 /\ UNCHANGED verdicts
T_Call == /\ Ev("call") /\ calls' = Append(calls, [s |-> E.s, i |-> E.i, ok |-> E.ok])
          /\ l' = l + 1 /\ UNCHANGED <<tid, sm, stress, wire, verdicts>>
T_Wire == /\ Ev("wire") /\ wire' = Append(wire, [s |-> E.s, i |-> E.i, whole |-> E.whole, x |-> E.x])
          /\ l' = l + 1 /\ UNCHANGED <<tid, sm, stress, calls, verdicts>>
T_Quiet == /\ Ev("quiet") /\ verdicts' = AddV(Judge(E))
           /\ l' = l + 1 /\ UNCHANGED <<tid, sm, stress, calls, wire>>
T_Crash == /\ Ev("crash") /\ verdicts' = AddV(<<V("C08", "nothing-panics", Mode, [msg |-> E.msg])>>)
           /\ l' = l + 1 /\ UNCHANGED <<tid, sm, stress, calls, wire>>
T_Skip == /\ (Ev("fin") \/ Ev("errcb") \/ Ev("event") \/ Ev("cutev") \/ Ev("note"))
          /\ l' = l + 1 /\ UNCHANGED <<tid, sm, stress, calls, wire, verdicts>>
T_End == /\ Ev("end") /\ PrintT(<<"VERDICTS", ToJson(VL!All)>>) /\ PrintT(<<"CONSUMED", l>>)
         /\ l' = l + 1 /\ UNCHANGED <<tid, sm, stress, calls, wire, verdicts>>
TraceInit == l = 1 /\ tid = 0 /\ sm = FALSE /\ stress = FALSE /\ calls = <<>> /\ wire = <<>> /\ verdicts = 0 /\ VL!InitV
TraceNext == T_Reset \/ T_Call \/ T_Wire \/ T_Quiet \/ T_Crash \/ T_Skip \/ T_End
TraceSpec == TraceInit /\ [][TraceNext]_tvars
=============================================================================
