#!/bin/sh
# try_patch.sh <patch.diff> <ID> [tier]  - apply a seeded change to /repo, run the check, always undo.
# Expected: exit 1 with a VIOLATION line. Never leaves /repo modified.
P="$1"; ID="$2"; TIER="${3:-quick}"
if [ -n "$(git -C /repo status --porcelain --untracked-files=no)" ]; then echo "/repo is dirty, refusing"; exit 3; fi
git -C /repo apply "$P" || { echo "patch does not apply"; exit 3; }
timeout 1500 /verif/bin/check "$ID" --tier "$TIER" > /tmp/try_patch.$$.log 2>&1; rc=$?
git -C /repo checkout -- . ; git -C /repo clean -fdq -- . >/dev/null 2>&1
grep -E -A6 "VIOLATION|KNOWN-FINDING|INFRA-ERROR|violation sig" /tmp/try_patch.$$.log | cut -c1-400 | head -16
echo "exit=$rc"; rm -f /tmp/try_patch.$$.log
# restore evidence of the unchanged tree is the caller's business
exit $rc
