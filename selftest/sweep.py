#!/usr/bin/env python3
"""sweep.py [--tier quick] [names...]: run every seeded change in /verif/seeded against the check of its
property, each in its own scratch worktree of /repo HEAD (never touching /repo or /verif/evidence),
and record the outcome in seeded/<name>/meta.json. Worktrees are removed afterwards."""
import json, os, re, subprocess, sys, tempfile, shutil, time
from concurrent.futures import ThreadPoolExecutor
V = os.path.dirname(os.path.dirname(os.path.abspath(__file__)))
tier = "quick"
args = sys.argv[1:]
if args[:1] == ["--tier"]:
    tier, args = args[1], args[2:]
names = args or sorted(d for d in os.listdir(os.path.join(V, "seeded")) if os.path.exists(os.path.join(V, "seeded", d, "patch.diff")))
head = subprocess.run(["git", "-C", "/repo", "rev-parse", "--short", "HEAD"], capture_output=True, text=True).stdout.strip()

def one(name):
    d = os.path.join(V, "seeded", name)
    pid = re.match(r"(C\d+)", name).group(1)
    wt = tempfile.mkdtemp(prefix="sweep-%s-" % name)
    os.rmdir(wt)
    ev = tempfile.mkdtemp(prefix="sweep-ev-%s-" % name)
    res = {"mutant": name, "property": pid, "repo_head": head, "tier": tier}
    try:
        subprocess.run(["git", "-C", "/repo", "worktree", "add", "--detach", wt, "HEAD"], capture_output=True, check=True)
        a = subprocess.run(["git", "-C", wt, "apply", os.path.join(d, "patch.diff")], capture_output=True, text=True)
        if a.returncode != 0:
            res["outcome"] = "patch does not apply: " + a.stderr[:200]
            return res
        env = dict(os.environ, VERIF_REPO=wt, VERIF_EVID=ev)
        t = time.time()
        p = subprocess.run([os.path.join(V, "bin", "check"), pid, "--tier", tier], capture_output=True, text=True, env=env, timeout=3600)
        res["exit"] = p.returncode
        res["wall_s"] = round(time.time() - t, 1)
        sigs = re.findall(r"violation sig=(\S+)", p.stdout)
        res["violation_sigs"] = sorted(set(sigs))[:12]
        res["outcome"] = {0: "MISSED", 1: "DETECTED", 2: "INFRA-ERROR"}.get(p.returncode, "exit %d" % p.returncode)
        if p.returncode == 2:
            i0 = p.stdout.find("INFRA"); res["infra"] = p.stdout[i0:i0+900]
    except Exception as e:
        res["outcome"] = "sweep error: %r" % e
    finally:
        subprocess.run(["git", "-C", "/repo", "worktree", "remove", "--force", wt], capture_output=True)
        shutil.rmtree(wt, ignore_errors=True)
        shutil.rmtree(ev, ignore_errors=True)
    return res

for name in names:
    r = one(name)
    mp = os.path.join(V, "seeded", name, "meta.json")
    meta = json.load(open(mp)) if os.path.exists(mp) else {}
    meta.setdefault("breaks_property", r["property"])
    meta["what_i_ran"] = "selftest/confirm_seeded.sh (patch applies to /repo HEAD, builds, existing suite passes with it, demo_test.go passes without it and fails with it); selftest/sweep.py (bin/check %s on a scratch worktree with the patch applied)" % r["property"]
    meta["needs_to_manifest"] = meta.get("needs_to_manifest", "see NOTES.md")
    if meta.get("superseded") and r.get("outcome") == "MISSED":
        r["outcome"] = "SUPERSEDED (not a violation on HEAD, see 'superseded')"
    meta.setdefault("runs", {})[tier] = r
    json.dump(meta, open(mp, "w"), indent=1)
    print("%-6s %-12s exit=%s %ss %s" % (name, r.get("outcome"), r.get("exit"), r.get("wall_s"), ",".join(r.get("violation_sigs", []))[:150]), flush=True)
