#!/bin/sh
# confirm_seeded.sh <srcdir> <ID> <variant>
# Confirms a seeded change in a scratch worktree of /repo HEAD: patch applies, library builds, the
# existing suite passes with it, the demonstration passes without it and fails with it.
# On success copies it to /verif/seeded/<ID><variant>/ . Always removes the worktree.
SRC="$1"; ID="$2"; V="$3"
export GOFLAGS=-mod=mod GOPROXY=off GOSUMDB=off GOTOOLCHAIN=local
WT=/tmp/wtc-$ID$V
git -C /repo worktree remove --force $WT >/dev/null 2>&1
git -C /repo worktree add --detach $WT HEAD >/dev/null 2>&1 || { echo "worktree failed"; exit 3; }
trap 'git -C /repo worktree remove --force $WT >/dev/null 2>&1' EXIT
pkg=$(grep -m1 '^package ' "$SRC/demo_test.go" | awk '{print $2}')
case "$pkg" in stanza|stanza_test) dir=stanza;; *) dir=.;; esac
cp "$SRC/demo_test.go" $WT/$dir/zz_seeded_${ID}${V}_test.go
run=$(grep -o 'func Test[A-Za-z0-9_]*' "$SRC/demo_test.go" | sed 's/func //' | paste -sd'|')
cd $WT
go test -tags verif -vet=off -count=1 -timeout 300s -run "^($run)\$" ./$dir > /tmp/cs.$$.base 2>&1; base=$?
git apply "$SRC/patch.diff" 2>/tmp/cs.$$.apply || git apply --3way "$SRC/patch.diff" 2>>/tmp/cs.$$.apply || { echo "$ID$V: patch does not apply"; cat /tmp/cs.$$.apply; exit 3; }
git diff HEAD --stat -- . ':!*_test.go' | tail -1
go build ./... > /tmp/cs.$$.build 2>&1; build=$?
go test -tags verif -vet=off -count=1 -timeout 300s -run "^($run)\$" ./$dir > /tmp/cs.$$.mut 2>&1; mut=$?
rm -f $WT/$dir/zz_seeded_${ID}${V}_test.go
go test -vet=off -count=1 -timeout 25m ./... > /tmp/cs.$$.suite 2>&1; suite=$?
echo "$ID$V: demo-without=$base build=$build demo-with=$mut suite-with=$suite"
if [ $base -eq 0 ] && [ $build -eq 0 ] && [ $mut -ne 0 ] && [ $suite -eq 0 ]; then
  D=/verif/seeded/$ID$V; mkdir -p $D
  git diff HEAD -- . > $D/patch.diff   # re-based on the current /repo HEAD
  cp "$SRC/demo_test.go" $D/demo_test.go; cp "$SRC/NOTES.md" $D/NOTES.md 2>/dev/null
  echo "CONFIRMED -> $D"; rc=0
else
  echo "NOT CONFIRMED"; tail -5 /tmp/cs.$$.base /tmp/cs.$$.mut /tmp/cs.$$.suite | cut -c1-200; rc=1
fi
rm -f /tmp/cs.$$.*
exit $rc
