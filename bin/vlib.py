"""Shared machinery for /verif/bin/check (see DESIGN.md section 3).

Pipeline of one check:
  1. tlc_mc      : TLC model-checks the subsystem specification (exhaustive within the cfg's
                   bounds) and prints every terminal behaviour once ("B" lines) -> scenarios
  2. run_driver  : the Go harness (built from /repo's working tree, -tags verif) executes the
                   scenarios against the real code and records NDJSON traces
  3. tlc_trace   : TLC runs the trace specification over the recorded traces -> verdicts
  4. finish      : verdicts vs KNOWN_FINDINGS.txt, VIOLATION / KNOWN-FINDING lines, evidence
Exit codes: 0 held, 1 violation reproduced on the real code, 2 infrastructure problem.
"""
import json, os, re, shutil, subprocess, sys, tempfile, time, hashlib

VERIF = os.path.dirname(os.path.dirname(os.path.abspath(__file__)))
REPO = os.environ.get("VERIF_REPO", "/repo")
SPEC = os.path.join(VERIF, "spec")
HARNESS = os.path.join(VERIF, "harness")
EVID = os.environ.get("VERIF_EVID", os.path.join(VERIF, "evidence"))   # selftest sweeps redirect this
KNOWN = os.path.join(VERIF, "KNOWN_FINDINGS.txt")
NCPU = os.cpu_count() or 4


class Infra(Exception):
    """Infrastructure failure: exit 2, never a VIOLATION."""


def goenv():
    e = dict(os.environ)
    e.update(GOFLAGS="-mod=mod", GOPROXY="off", GOSUMDB="off", GOTOOLCHAIN="local", CGO_ENABLED="0")
    return e


class Ctx:
    def __init__(self, pid, tier, seed):
        self.pid, self.tier, self.seed = pid, tier, seed
        self.t0 = time.time()
        self.tmp = tempfile.mkdtemp(prefix="verif-%s-" % pid)
        self.states = 0
        self.transitions = 0
        self.mc_runs = []
        self.traces = 0
        self.events = 0
        self.samples = []
        self.assumptions = []
        self.verdicts = []      # all verdict records from TLC trace validation
        self.scen_by_tid = {}   # tid -> (family, scenario json)
        self.notes = {}
        self.driver = None
        self.exhaustive = None

    def log(self, *a):
        print("[%s %.1fs]" % (self.pid, time.time() - self.t0), *a, flush=True)

    def cleanup(self):
        shutil.rmtree(self.tmp, ignore_errors=True)


# ---------------------------------------------------------------- TLC

_B = re.compile(r'^<<"([A-Z]+)", (.*)>>$')


def _parse_tagged(line):
    m = _B.match(line)
    if not m:
        return None
    tag, rest = m.group(1), m.group(2)
    if rest.startswith('"'):
        try:
            s = json.loads(rest)          # TLA+ string escapes are JSON compatible
        except Exception:
            return None
        try:
            return tag, json.loads(s)
        except Exception:
            return tag, s
    try:
        return tag, int(rest)
    except Exception:
        return tag, rest


def _spec_dir(ctx, name):
    d = os.path.join(ctx.tmp, name)
    os.makedirs(d, exist_ok=True)
    for f in os.listdir(SPEC):
        if f.endswith(".tla") or f.endswith(".cfg"):
            shutil.copy(os.path.join(SPEC, f), d)
    return d


def run_tlc(ctx, module, cfg, workers=None, timeout=600, env=None, extra=(), consts=None, tag=None, cfgtext=None):
    """Run TLC; returns dict(out, code, states, distinct, tagged{TAG:[...]})."""
    tag = tag or cfg.replace(".cfg", "")
    ctx.ntlc = getattr(ctx, "ntlc", 0) + 1
    d = _spec_dir(ctx, "tlc-" + tag + "-%d" % ctx.ntlc)
    cfgpath = os.path.join(d, cfg)
    if cfgtext is not None:
        open(cfgpath, "w").write(cfgtext)
    if consts:
        txt = open(cfgpath).read()
        for k, v in consts.items():
            txt, n = re.subn(r'(?m)^(\s*%s\s*=\s*).*$' % re.escape(k), lambda m: m.group(1) + str(v), txt)
            if n == 0:
                raise Infra("constant %s not in %s" % (k, cfg))
        open(cfgpath, "w").write(txt)
    e = dict(os.environ)
    if env:
        e.update(env)
    # deep operator recursion (folds over pending steps) needs more than the default thread stack
    jt = os.path.join(d, "jtmp")
    os.makedirs(jt, exist_ok=True)   # TLC leaves an empty tlc-<n> directory in java.io.tmpdir per run: keep it in the scratch
    e["JAVA_TOOL_OPTIONS"] = (e.get("JAVA_TOOL_OPTIONS", "") + " -Xss256m -Djava.io.tmpdir=" + jt).strip()
    cmd = ["timeout", str(timeout), "tlc", "-workers", str(workers or min(NCPU, 8)), "-metadir", os.path.join(d, "md"),
           "-config", cfg] + list(extra) + [module + ".tla"]
    t = time.time()
    outpath = os.path.join(d, "out.txt")
    with open(outpath, "w") as fo:
        p = subprocess.run(cmd, cwd=d, env=e, stdout=fo, stderr=subprocess.STDOUT)
    res = dict(code=p.returncode, tagged={}, states=0, distinct=0, wall=time.time() - t, outpath=outpath, cfg=cfg)
    tail = []
    with open(outpath, errors="replace") as fi:
        for line in fi:
            line = line.rstrip("\n")
            if line.startswith('<<"'):
                pt = _parse_tagged(line)
                if pt:
                    res["tagged"].setdefault(pt[0], []).append(pt[1])
                    continue
            tail.append(line)
            if len(tail) > 400:
                tail = tail[-200:]
            m = re.match(r'^(\d+) states generated, (\d+) distinct states found', line)
            if m:
                res["states"], res["distinct"] = int(m.group(1)), int(m.group(2))
    errs = [i for i, x in enumerate(tail) if x.startswith("Error:")]
    res["tail"] = "\n".join(tail[errs[0]:errs[0] + 30] if errs else tail[-25:])
    return res


def tlc_mc(ctx, module, cfg, expect_ok=True, **kw):
    """Model-check a subsystem spec. An invariant violation here is a design-level
    counterexample of MY model, not a verdict on the code -> Infra (exit 2)."""
    r = run_tlc(ctx, module, cfg, **kw)
    ctx.mc_runs.append(dict(module=module, cfg=cfg, states=r["distinct"], transitions=r["states"], wall_s=round(r["wall"], 1),
                            consts=kw.get("consts")))
    if r["code"] == 124:
        raise Infra("TLC timeout on %s/%s" % (module, cfg))
    if expect_ok and r["code"] != 0:
        raise Infra("TLC model checking of %s/%s failed (exit %d):\n%s" % (module, cfg, r["code"], r["tail"]))
    ctx.states += r["distinct"]
    ctx.transitions += r["states"]
    ctx.log("TLC %s/%s: %d distinct states, %d transitions, %d behaviours emitted, %.1fs" % (
        module, cfg, r["distinct"], r["states"], len(r["tagged"].get("B", [])), r["wall"]))
    return r


def tlc_simulate(ctx, module, cfg, num, depth, seed, timeout=300, **kw):
    r = run_tlc(ctx, module, cfg, workers=1, timeout=timeout,
                extra=["-simulate", "num=%d" % num, "-depth", str(depth), "-seed", str(seed)], **kw)
    if r["code"] not in (0,):
        raise Infra("TLC simulation of %s/%s failed (exit %d):\n%s" % (module, cfg, r["code"], r["tail"]))
    ctx.mc_runs.append(dict(module=module, cfg=cfg, mode="simulate", num=num, depth=depth, wall_s=round(r["wall"], 1)))
    ctx.log("TLC simulate %s/%s: %d behaviours emitted, %.1fs" % (module, cfg, len(r["tagged"].get("B", [])), r["wall"]))
    return r


def _split_trace(ctx, trace_path, chunk_events):
    """Split an NDJSON trace into chunks at scenario boundaries (reset events; traces without
    reset events consist of independent events and are split anywhere). Each chunk ends with
    its own end event. Returns [(path, nevents)]."""
    chunks, cur, n = [], None, 0
    has_reset = False
    with open(trace_path) as f:
        for ln in f:
            if '"ev":"reset"' in ln:
                has_reset = True
                break
    k = 0

    def start():
        nonlocal cur, n, k
        k += 1
        path = "%s.chunk%d" % (trace_path, k)
        cur = open(path, "w")
        n = 0
        chunks.append([path, 0])

    def close():
        nonlocal cur
        if cur:
            cur.write('{"ev":"end"}\n')
            chunks[-1][1] = n + 1
            cur.close()
            cur = None
    with open(trace_path) as f:
        for ln in f:
            if not ln.strip():
                continue
            is_end = ln.startswith('{"ev":"end"}')
            if is_end:
                continue
            is_reset = ('"ev":"reset"' in ln) if has_reset else True
            if cur is None or (n >= chunk_events and is_reset):
                close()
                start()
            cur.write(ln)
            n += 1
    if cur is None:
        start()
    close()
    return [tuple(c) for c in chunks]


def tlc_trace(ctx, module, cfg, trace_path, nevents, timeout=900, deque=False, env=None, chunk_events=30000, parallel=8):
    """Validate recorded traces (chunks in parallel, each a linear pass with -workers 1). Returns verdict records."""
    from concurrent.futures import ThreadPoolExecutor
    chunks = _split_trace(ctx, trace_path, chunk_events)
    if sum(n for _, n in chunks) - len(chunks) != nevents - 1:
        raise Infra("trace split lost events: %s vs %d" % (chunks, nevents))
    t0 = time.time()

    def one(arg):
        i, (path, n) = arg
        e = {"VERIF_TRACE": path}
        if env:
            e.update(env)
        if deque:
            e["JAVA_TOOL_OPTIONS"] = "-Dtlc2.tool.queue.IStateQueue=StateDeque"
        r = run_tlc(ctx, module, cfg, workers=1, timeout=timeout, env=e, tag="trace-%s-%d" % (cfg.replace(".cfg", ""), i))
        return path, n, r
    with ThreadPoolExecutor(max_workers=parallel) as ex:
        results = list(ex.map(one, enumerate(chunks)))
    vs, stats = [], []
    for path, n, r in results:
        if r["code"] == 124:
            raise Infra("TLC timeout validating trace chunk %s" % path)
        if r["code"] != 0:
            raise Infra("TLC trace validation %s/%s failed (exit %d):\n%s" % (module, cfg, r["code"], r["tail"]))
        cons = r["tagged"].get("CONSUMED", [])
        if not cons or max(cons) != n:
            raise Infra("trace not fully consumed by %s: consumed=%s events=%d\n%s" % (module, cons, n, r["tail"]))
        for v in r["tagged"].get("VERDICTS", []):
            if isinstance(v, list):
                vs.extend(v)
        stats += r["tagged"].get("STATS", [])
    if stats:
        ctx.notes.setdefault("monitor_stats", []).extend(stats[:4])
    ctx.log("TLC trace %s: %d events consumed in %d chunk(s), %d verdicts, %.1fs" % (module, nevents, len(chunks), len(vs), time.time() - t0))
    return vs


# ---------------------------------------------------------------- Go harness

def build_driver(ctx):
    if ctx.driver:
        return ctx.driver
    if not os.path.exists(os.path.join(REPO, "go.mod")):
        raise Infra("no go.mod in %s" % REPO)
    # the harness module needs the repository's go.sum entries
    out = os.path.join(ctx.tmp, "driver")
    t = time.time()
    hdir = HARNESS
    if os.path.realpath(REPO) != "/repo":
        # selftest sweeps check a scratch copy of the repository: build a copy of the harness module
        # whose replace directive points there (the registered checks always use /repo itself)
        hdir = os.path.join(ctx.tmp, "harness-src")
        shutil.copytree(HARNESS, hdir)
        gm = open(os.path.join(hdir, "go.mod")).read().replace("=> /repo", "=> " + os.path.realpath(REPO))
        open(os.path.join(hdir, "go.mod"), "w").write(gm)
    p = subprocess.run(["go", "build", "-tags", "verif", "-o", out, "./cmd/driver"], cwd=hdir, env=goenv(),
                       stdout=subprocess.PIPE, stderr=subprocess.STDOUT, text=True)
    if p.returncode != 0:
        raise Infra("harness build failed (is /repo compiling with -tags verif?):\n" + p.stdout[-4000:])
    ctx.log("harness built from %s in %.1fs" % (REPO, time.time() - t))
    ctx.driver = out
    return out


def run_driver(ctx, family, scen=None, n=0, args=(), timeout=900, name=None):
    """Run the driver. scen: list of scenario objects (dicts). Returns (trace_path, nevents, scen_map)."""
    drv = build_driver(ctx)
    name = name or family
    k = len([f for f in os.listdir(ctx.tmp) if f.startswith("trace-")])
    out = os.path.join(ctx.tmp, "trace-%s-%d.ndjson" % (name, k))
    scenout = os.path.join(ctx.tmp, "scenout-%s-%d.jsonl" % (name, k))
    cmd = [drv, family, "-out", out, "-scenout", scenout, "-seed", str(ctx.seed), "-tier", ctx.tier, "-n", str(n)]
    if scen is not None:
        sp = os.path.join(ctx.tmp, "scen-%s-%d.jsonl" % (name, k))
        with open(sp, "w") as f:
            for s in scen:
                f.write(json.dumps(s) + "\n")
        cmd += ["-scen", sp]
    cmd += list(args)
    t = time.time()
    try:
        p = subprocess.run(cmd, cwd=ctx.tmp, env=goenv(), stdout=subprocess.PIPE, stderr=subprocess.STDOUT, text=True,
                           timeout=timeout)
    except subprocess.TimeoutExpired:
        raise Infra("driver %s timed out after %ds" % (family, timeout))
    if p.returncode != 0:
        raise Infra("driver %s failed (exit %d):\n%s" % (family, p.returncode, p.stdout[-4000:]))
    m = re.search(r'SCENARIOS (\d+) EVENTS (\d+)', p.stdout)
    if not m:
        raise Infra("driver %s printed no summary:\n%s" % (family, p.stdout[-2000:]))
    nscen, nev = int(m.group(1)), int(m.group(2))
    for ln in p.stdout.splitlines():
        if ln.startswith("NOTE "):
            ctx.log(ln)
            ctx.notes.setdefault("driver_notes", []).append(ln[5:200])
    smap = {}
    if os.path.exists(scenout):
        with open(scenout) as f:
            for ln in f:
                o = json.loads(ln)
                smap[o["tid"]] = o["scen"]
    for tid, s in smap.items():
        ctx.scen_by_tid[tid] = (family, s, list(args))
    ctx.traces += nscen
    ctx.events += nev
    ctx.log("driver %s: %d scenarios, %d events, %.1fs" % (family, nscen, nev, time.time() - t))
    # keep a few sample trace lines
    if len(ctx.samples) < 6:
        with open(out) as f:
            head = [next(f, "").strip() for _ in range(12)]
        ctx.samples.append({"trace_head": [json.loads(h) for h in head if h][:8], "family": name})
    return out, nev, smap


# ---------------------------------------------------------------- known findings / verdict / evidence

def load_known():
    known, fixed = {}, []
    if os.path.exists(KNOWN):
        for ln in open(KNOWN):
            ln = ln.strip()
            if ln.startswith("finding:"):
                m = re.match(r'finding:\s+property=(\S+)\s+sig=(\S+)\s+(.*)$', ln)
                if m:
                    known[(m.group(1), m.group(2))] = m.group(3)
            elif ln.startswith("fixed:"):
                fixed.append(ln)
    return known, fixed


def verdict_sig(v):
    d = v.get("detail") or {}
    s = v.get("sig") or (d.get("sig") if isinstance(d, dict) else None)
    return "%s/%s" % (v.get("clause", "?"), s) if s else v.get("clause", "?")


TIMED_FAMILIES = {"life", "c18", "sess", "neg", "comp", "c08", "c07"}
CONFIRM_RUNS = 4


def _confirm(ctx, sig, v, fam):
    """Replay the scenario of verdict v alone, up to CONFIRM_RUNS times; True when the same signature shows again
    (or when the replay itself cannot be run: an observation is never dismissed on an infrastructure problem)."""
    d = os.path.join(ctx.tmp, "confirm-%d" % (abs(hash(sig)) % 100000))
    os.makedirs(d, exist_ok=True)
    rp = os.path.join(d, "cand.json")
    with open(rp, "w") as f:
        json.dump({"property": ctx.pid, "sig": sig, "verdict": v, "family": fam[0], "scenario": fam[1], "driver_args": fam[2],
                   "seed": ctx.seed, "tier": ctx.tier}, f)
    env = dict(os.environ)
    env["VERIF_NO_CONFIRM"] = "1"
    env["VERIF_EVID"] = os.path.join(d, "evid")
    for i in range(CONFIRM_RUNS):
        try:
            r = subprocess.run([os.path.join(VERIF, "bin", "check"), ctx.pid, "--tier", ctx.tier, "--replay", rp], env=env,
                               stdout=subprocess.PIPE, stderr=subprocess.STDOUT, text=True, timeout=600)
        except Exception as e:
            ctx.log("confirm: replay failed to run (%s): keeping the observation" % e)
            return True
        if r.returncode == 1:
            rd = os.path.join(d, "evid", "replay")
            sigs = set()
            if os.path.isdir(rd):
                for fn in os.listdir(rd):
                    try:
                        sigs.add(json.load(open(os.path.join(rd, fn))).get("sig"))
                    except Exception:
                        pass
            if sig in sigs or any(x and x.split("/")[0] == sig.split("/")[0] for x in sigs):
                ctx.log("confirm: sig=%s reproduced in replay %d" % (sig, i + 1))
                return True
        elif r.returncode != 0:
            ctx.log("confirm: replay exited %d: keeping the observation" % r.returncode)
            return True
    return False


def finish(ctx, prop_filter=None):
    """Turn verdicts into KNOWN-FINDING / VIOLATION lines, write evidence, return exit code."""
    known, _ = load_known()
    os.makedirs(os.path.join(EVID, "replay"), exist_ok=True)
    # remove stale replays of this property
    for f in os.listdir(os.path.join(EVID, "replay")):
        if f.startswith(ctx.pid + "-"):
            os.remove(os.path.join(EVID, "replay", f))
    if ctx.scen_by_tid and any(v.get("tid") == 0 for v in ctx.verdicts):
        # every scenario trace starts with a reset event carrying its tid: a verdict without one was judged from the
        # middle of a scenario (a trace cut in the wrong place), which is a defect of the machinery, not of the code
        raise Infra("a verdict was produced outside any scenario (tid 0): trace chunking or driver defect")
    vs = [v for v in ctx.verdicts if v.get("prop") == ctx.pid] if prop_filter is None else [v for v in ctx.verdicts if prop_filter(v)]
    other = len(ctx.verdicts) - len(vs)
    osigs = {}
    for v in ctx.verdicts:
        if v not in vs:
            k = "%s:%s" % (v.get("prop"), verdict_sig(v))
            osigs[k] = osigs.get(k, 0) + 1
    if osigs:
        ctx.log("verdicts for other properties in the shared traces (reported by their own checks): " + ", ".join("%s x%d" % kv for kv in sorted(osigs.items())))
    by_sig = {}
    for v in vs:
        by_sig.setdefault(verdict_sig(v), []).append(v)
    nviol, nknown = 0, 0
    lines = []
    unconfirmed = []
    nconfirm = 0
    for sig, lst in sorted(by_sig.items()):
        if (ctx.pid, sig) in known:
            nknown += 1
            lines.append("KNOWN-FINDING: property=%s %s [sig=%s, %d occurrence(s) this run]" % (ctx.pid, known[(ctx.pid, sig)], sig, len(lst)))
            continue
        v = lst[0]
        fam = ctx.scen_by_tid.get(v.get("tid"))
        # Families that run a real client against real time: an observation made once among thousands of scenarios
        # on a loaded machine must reproduce when its scenario is replayed alone before it is reported.
        if (fam and fam[0] in TIMED_FAMILIES and not ctx.replay and not os.environ.get("VERIF_NO_CONFIRM")
                and len(lst) <= 2 and nconfirm < 6):
            nconfirm += 1
            if not _confirm(ctx, sig, v, fam):
                unconfirmed.append({"sig": sig, "occurrences": len(lst), "tid": v.get("tid"), "scenario": fam[1]})
                ctx.log("UNCONFIRMED sig=%s: observed %d time(s), not reproduced in %d replays of its scenario; not reported" % (sig, len(lst), CONFIRM_RUNS))
                continue
        nviol += 1
        rp = os.path.join(EVID, "replay", "%s-%d.json" % (ctx.pid, nviol))
        with open(rp, "w") as f:
            json.dump({"property": ctx.pid, "sig": sig, "occurrences": len(lst), "verdict": v,
                       "family": fam[0] if fam else None, "scenario": fam[1] if fam else None,
                       "driver_args": fam[2] if fam else None, "seed": ctx.seed, "tier": ctx.tier}, f, indent=1)
        lines.append("VIOLATION property=%s replay=%s" % (ctx.pid, rp))
        ctx.log("violation sig=%s clause=%s tid=%s idx=%s detail=%s" % (sig, v.get("clause"), v.get("tid"), v.get("idx"),
                                                                   json.dumps(v.get("detail"))[:600]))
    for ln in lines:
        print(ln, flush=True)
    if unconfirmed:
        ctx.notes["unconfirmed_observations"] = unconfirmed
    write_evidence(ctx, nviol, nknown, other)
    return 1 if nviol else 0


def write_evidence(ctx, nviol, nknown, other_prop_verdicts=0):
    os.makedirs(EVID, exist_ok=True)
    cov = {
        "states": int(ctx.states), "transitions": int(ctx.transitions),
        "traces_validated_against_impl": int(ctx.traces),
        "trace_events_validated": int(ctx.events),
        "samples": ctx.samples[:8] or [{"note": "no samples recorded"}],
        "tlc_runs": ctx.mc_runs,
        "known_findings_observed": nknown,
        "verdicts_for_other_properties_in_shared_traces": other_prop_verdicts,
    }
    if ctx.exhaustive is not None:
        cov["exhaustive"] = bool(ctx.exhaustive)
    cov.update(ctx.notes)
    ev = {"property_id": ctx.pid, "tier": ctx.tier, "seed": int(ctx.seed), "level": "model_checking", "coverage": cov,
          "assumptions": ctx.assumptions, "wall_s": round(time.time() - ctx.t0, 2), "violations": nviol}
    with open(os.path.join(EVID, ctx.pid + ".json"), "w") as f:
        json.dump(ev, f, indent=1)
