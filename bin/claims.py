"""What MANIFEST.json claims, per property (bin/mkmanifest.py turns this into MANIFEST.json)."""
HOOK_COMMITS = ["49d5577", "152da9a", "e247e37", "1f4d624", "1487890"]
NOTES = ("Every check: TLC model-checks the subsystem specification (exhaustive within the bounds reported in the evidence), "
         "the behaviours TLC emits are replayed into the real code built from /repo's working tree with -tags verif, and the recorded "
         "traces are validated by TLC against the trace specification; verdicts come only from that last step. "
         "Exit 2 (INFRA-ERROR) is never a verdict. Known findings: /verif/KNOWN_FINDINGS.txt.")
NOT_APPLICABLE = {}
TECH = "TLA+ spec + TLC model checking; TLC-generated behaviours replayed into the Go code; recorded traces validated by TLC (trace spec)"
CLAIMS = {
 "C17": dict(
    text="UnAckQueue.tla is the reference FIFO (one action per public method). TLC checks FIFO conservation/order, id monotonicity, "
         "peek purity and pop-n = n pops exhaustively for all operation histories up to the bound, emits every history, the harness "
         "applies each to a real stanza.UnAckQueue logging return value and full queue after every call, and TLC validates every "
         "logged step against the reference functions; plus seeded long histories (bursts, equal payloads, k over the int range).",
    note="Trusted: TLC, the harness projection of queue entries to (id, payload tag), clamping of k to +-10^6 in the log. "
         "Exhaustive only within the stated bounds; beyond them seeded random histories.",
    technique=TECH),
 "C19": dict(
    text="Backoff.tla gives the reference delay min(cap, base*factor^n) with saturating arithmetic and the three entry points "
         "(stateful wait, reset, stateless query). TLC checks boundedness, monotonicity and statelessness for every operation history "
         "up to the bound over a parameter grid (defaults, degenerate and large values; n up to 2^31-2), emits every history, the "
         "harness drives the real backoff through the verif exports and TLC validates every returned duration against Allowed(); "
         "plus seeded long histories with wide-range parameters and attempt numbers up to 2^63.",
    note="Trusted: TLC, millisecond projection of time.Duration, clamping of n to 2*10^9 in the log. Jitter is checked as an interval, "
         "not as a distribution. wait() itself (the sleep) is not timed.",
    technique=TECH),
 "C15": dict(
    text="Jid.tla defines Parse/Full/Bare over strings abstracted to character classes; TLC proves the round-trip theorems for every "
         "class string up to the bound and emits each; the harness concretises every class string several times (ASCII, non-ASCII, "
         "all Unicode space kinds, every forbidden character), runs NewJid/Full/Bare and TLC compares acceptance, the three parts and "
         "the re-parsed renderings with the reference.",
    note="Trusted: TLC, the rune->class table of the harness. Not asserted (as the property says): '/' before the first '@'; "
         "also not asserted: ' \" : < > inside a domain (the statement names no forbidden set for domains).",
    technique=TECH),
 "C20": dict(
    text="Address.tla enumerates every address form (scheme x host form incl. all IPv6 shapes x brackets x port x client/component) with "
         "the expected observable result; each form is concretised with seeded literals (boundary ports, every port in the thorough "
         "tier) through NewClientTransport/NewComponentTransport, NewClient and Component.Resume, and again after live connections to a loopback "
         "listener (a transport is reused for every reconnection), and TLC checks transport kind, dialability, kept host and port.",
    note="Trusted: TLC, net.SplitHostPort and host string equality computed in the harness. Bare IPv6 followed by :port, other URL "
         "schemes and port 0 are not asserted. DNS SRV lookup in NewClient and cert_checker.go are not driven.",
    technique=TECH),
 "C06": dict(
    text="Router.tla defines Matches/FirstMatch/Result; TLC checks the routing theorems (at most one handler, later routes ignored, "
         "empty route catches all, reply only for unhandled requests) for ALL tables up to 2 routes over the matcher alphabet x all "
         "packets, emits each pair; the harness builds the real Router through the public builder API, decodes the packet from wire "
         "XML with the library parser, calls route() and TLC compares invoked handlers and replies; plus seeded tables up to 6 routes.",
    note="Trusted: TLC, the harness's XML scan of replies. Not asserted: namespace matchers vs unregistered payloads, upper-case "
         "namespaces. Routing through a live connection is covered by C05.",
    technique=TECH),
 "C05": dict(
    text="Session.tla models the receive loop, the per-packet route goroutines, user sends and acknowledgement processing; TLC checks "
         "routed-exactly-once / every-<r/>-answered / no phantom for all interleavings up to the bound and emits every environment history; "
         "each history is played by the scripted server against a real Client (lock-step barriers, plus chunked, big and burst variants, SM on "
         "and off, worker subprocesses so a panic is an observation) and TLC compares, barrier by barrier, handler calls and answers with the model.",
    note="Trusted: TLC, the scripted server's element splitter, the verif hooks used only to detect quiescence. The happy-path negotiation (PLAIN without TLS, bind, <enabled resume=true>) is a precondition. Exhaustive only within the bounds in the evidence; beyond them seeded variants (chunked writes, big stanzas, RST, burst histories). Sampled histories are also run over STARTTLS (TLS 1.2 / 1.3, with and without a stream logger; the last stanza and the close_notify arrive in one read), with elements padded to the exact sizes around the buffer and read limits, and with a connection that dies silently (only the keepalive notices). Every scenario family is also driven over the WebSocket transport (RFC 7395 framing, in-process server) for a sample of the histories; write faults over WebSocket are injected at the dialled TCP connection.", technique=TECH),
 "C09": dict(
    text="Same model and pipeline as C05 with the inbound alphabet {message, presence, iq, <r/>, <a/>, features}: TLC checks that the "
         "reference counter equals the number of stanzas before each request; on the real client every <a/> the server receives and the "
         "public SMState.Inbound at every barrier must equal the reference count; burst histories up to 65 elements. The h of <resume/> is checked by C11.",
    note="Trusted: TLC, the scripted server's element splitter, the verif hooks used only to detect quiescence. The happy-path negotiation (PLAIN without TLS, bind, <enabled resume=true>) is a precondition. Exhaustive only within the bounds in the evidence; beyond them seeded variants (chunked writes, big stanzas, RST, burst histories). Sampled histories are also run over STARTTLS (TLS 1.2 / 1.3, with and without a stream logger; the last stanza and the close_notify arrive in one read), with elements padded to the exact sizes around the buffer and read limits, and with a connection that dies silently (only the keepalive notices). Every scenario family is also driven over the WebSocket transport (RFC 7395 framing, in-process server) for a sample of the histories; write faults over WebSocket are injected at the dialled TCP connection.", technique=TECH),
 "C10": dict(
    text="Session.tla models numbering, holding, acknowledgement and retransmission; TLC checks the bookkeeping invariants and the ack-step "
         "action property for all interleavings and emits every history of Send/SendRaw/SendIQ (stanzas, <r/>, <a/>) and server acks with any h; "
         "on the real client the wire output after every step and the exported queue (tags, ids) must equal the model's under at least one "
         "of the two readings of renumbering.",
    note="Trusted: TLC, the scripted server's element splitter, the verif hooks used only to detect quiescence. The happy-path negotiation (PLAIN without TLS, bind, <enabled resume=true>) is a precondition. Exhaustive only within the bounds in the evidence; beyond them seeded variants (chunked writes, big stanzas, RST, burst histories). Sampled histories are also run over STARTTLS (TLS 1.2 / 1.3, with and without a stream logger; the last stanza and the close_notify arrive in one read), with elements padded to the exact sizes around the buffer and read limits, and with a connection that dies silently (only the keepalive notices). Every scenario family is also driven over the WebSocket transport (RFC 7395 framing, in-process server) for a sample of the histories; write faults over WebSocket are injected at the dialled TCP connection." + " Concurrent senders racing with acknowledgement processing are covered by C08's stress driver only for loss/duplication, not for the exact ack arithmetic.", technique=TECH),
 "C12": dict(
    text="Session.tla's ServerCut/RecvErr; every generated history is cut at every element boundary, and the harness additionally cuts at "
         "every byte offset of every element kind (FIN and RST) and injects write failures; TLC checks exactly one error callback, exactly one "
         "Disconnected event carrying the SM state, all complete stanzas routed, receive loop and keepalive ended (hooks), no library goroutine "
         "left (stack dump), no panic (worker survives).",
    note="Trusted: TLC, the scripted server's element splitter, the verif hooks used only to detect quiescence. The happy-path negotiation (PLAIN without TLS, bind, <enabled resume=true>) is a precondition. Exhaustive only within the bounds in the evidence; beyond them seeded variants (chunked writes, big stanzas, RST, burst histories). Sampled histories are also run over STARTTLS (TLS 1.2 / 1.3, with and without a stream logger; the last stanza and the close_notify arrive in one read), with elements padded to the exact sizes around the buffer and read limits, and with a connection that dies silently (only the keepalive notices). Every scenario family is also driven over the WebSocket transport (RFC 7395 framing, in-process server) for a sample of the histories; write faults over WebSocket are injected at the dialled TCP connection.", technique=TECH),
 "C08": dict(
    text="SendPath.tla models each send as serialise(+queue push) then ONE atomic transport write, for N concurrent senders with a write "
         "fault at the k-th write; TLC checks wire-is-a-shuffle-of-whole-stanzas / failed-write-reported / pushed-once for all schedules and shows "
         "that a split-write variant violates the invariant (non-vacuity). Every schedule of 2 senders x 2 sends is replayed on a real Client "
         "through the gate between serialisation and write (Send, SendRaw, SendIQ mixed; SM on/off; stream logger on/off; total and partial write "
         "faults), plus ungated stress runs with up to 8 senders; the server matches every received top-level element byte-for-byte and TLC judges the trace.",
    note="Trusted: TLC, the server-side element splitter and byte comparison, atomicity of one Write call on net.Conn. Client over TCP and WebSocket, and "
         "Component (XEP-0114) senders with big payloads in the stress runs. Log-file layout is not asserted.",
    technique=TECH),
 "C03": dict(
    text="Negotiation.tla is a stage machine of the client's negotiation (open, STARTTLS, TLS handshake, restart, SASL, restart, resume | bind, "
         "legacy session, SM enable) with the server's reply at each stage as environment choice, and the Client/Session/Transport state that "
         "persists across connections. TLC checks wire order, success-needs-every-step and the C04/C11/C14 invariants and emits every behaviour; "
         "each is a script for the scripted TLS-capable server, run against a real Client; TLC folds the same Step operator over the logged replies "
         "and compares requests, their order, outcome, established-event count; hangs (8 s) and panics (worker death) are observations. After the script "
         "the server stays lenient so a client that wrongly carries on is seen succeeding. Includes 2-connection histories (a failed attempt must not poison the next).",
    note="Trusted: TLC, the scripted server (element splitter, in-process CA with valid / wrong-host / untrusted / expired leaves; over TCP with STARTTLS and over WebSocket ws: / wss:), the harness's classification of client elements. Not asserted: error texts, IQ ids, the Permanent flag except where a property names it, whether STARTTLS is attempted in insecure mode, whether an optional legacy session is negotiated. WebSocket transport not yet driven. Exhaustive within the per-step alphabets in the evidence.", technique=TECH),
 "C04": dict(
    text="Same model; every client element carries an enc flag set by the server (read inside/outside TLS). TLC checks NoSecretInClear for all "
         "Insecure x TLS-config x STARTTLS-offer x reply x certificate-class combinations and for 2-3 connections on one client object (the flags that "
         "say 'secure' live in reused objects); on the real client every sensitive element (auth, resume, bind, session, enable, any stanza) read in "
         "clear text, or over TLS with a certificate that does not validate for the domain, is a violation judged independently of the model.",
    note="Trusted: TLC, the scripted server (element splitter, in-process CA with valid / wrong-host / untrusted / expired leaves; over TCP with STARTTLS and over WebSocket ws: / wss:), the harness's classification of client elements. Not asserted: error texts, IQ ids, the Permanent flag except where a property names it, whether STARTTLS is attempted in insecure mode, whether an optional legacy session is negotiated. WebSocket transport not yet driven. Exhaustive within the per-step alphabets in the evidence.", technique=TECH),
 "C11": dict(
    text="Same model with the carried stream-management state: all histories of 3 (thorough 4) connections on one client through both reconnect "
         "entry points, every reply to <resume/>; TLC checks resume-only-with-id / resumed-means-no-bind; on the real client the <resume/> element's "
         "previd and h, the absence of bind after <resumed/>, BindJid/SMState after each attempt and that a stale id is never presented again are compared with the reference.",
    note="Trusted: TLC, the scripted server (element splitter, in-process CA with valid / wrong-host / untrusted / expired leaves; over TCP with STARTTLS and over WebSocket ws: / wss:), the harness's classification of client elements. Not asserted: error texts, IQ ids, the Permanent flag except where a property names it, whether STARTTLS is attempted in insecure mode, whether an optional legacy session is negotiated. WebSocket transport not yet driven. Exhaustive within the per-step alphabets in the evidence.", technique=TECH),
 "C14": dict(
    text="Same model's SASL step: ChosenMech over 11 server mechanism lists x both credential kinds x every reply to <auth/>, two connections with "
         "independent lists; on the real client the mechanism attribute, the base64-decoded payload as a byte sequence (TLC compares it with "
         "<<0>> o user o <<0>> o secret for users/secrets from byte classes), nothing-sent-and-permanent when no common mechanism, permanent on <failure/>.",
    note="Trusted: TLC, the scripted server (element splitter, in-process CA with valid / wrong-host / untrusted / expired leaves; over TCP with STARTTLS and over WebSocket ws: / wss:), the harness's classification of client elements. Not asserted: error texts, IQ ids, the Permanent flag except where a property names it, whether STARTTLS is attempted in insecure mode, whether an optional legacy session is negotiated. WebSocket transport not yet driven. Exhaustive within the per-step alphabets in the evidence." + " base64 decoding and the reference bytes are computed by the Go standard library in the harness (DESIGN.md section 9).", technique=TECH),
 "C16": dict(
    text="ComponentSession.tla: header with a stream id of each class, the handshake, every reply class, stanzas routed inline in order, the "
         "Component object reused for later connections. TLC checks established-iff-handshake / nothing-routed-unless-established / in-order and "
         "emits every behaviour (2-3 connections); the scripted server plays each against a real Component, logs whether the digest equals "
         "lower-case hex SHA-1(unescaped id + secret) for 4 secrets, the result, the state events and the handler sequence; TLC judges.",
    note="Trusted: TLC, crypto/sha1 and hex of the Go standard library as the reference digest (the specification names the primitive, DESIGN.md "
         "section 9), the scripted server. Only TCP (components refuse WebSocket addresses: C20).",
    technique=TECH),
 "C13": dict(
    text="Lifecycle.tla models the supervision as implemented: the reconnect loop runs inside the goroutine that detected the loss, failed "
         "attempts leave a teardown reader, one transport is shared; TLC checks at-most-one-loop / one-session-per-loss / post-connect-once / "
         "only-permanent-errors-end-the-loop / stop-returns-run and Loss ~> Session under fairness, shows that the five defects found in the "
         "code (D6, D12, D27, and the stale-keepalive pair D26/D28) each violate a property in the model (the post-connect callback is a phase "
         "of its own, losses can fall inside it, a handled loss must have a loop running), and emits every fault sequence (abrupt / graceful termination, refused, "
         "reset, torn-down and credential-rejected attempts, resumption accepted or refused, k losses). A real StreamManager+Client runs each "
         "against the scripted server; TLC judges per round: exactly one new session, no extra connection, post-connect once, receiving and "
         "sending on the new connection, resumed when possible, permanent error ends the loop, retries while refused, Stop returns Run.",
    note="Trusted: TLC, the scripted server, bounded waits (6 s for a new session, 0.5 s for 'no further attempt'; back-off delays are tens "
         "of milliseconds). Permanent errors here: rejected credentials (with and without text) and a TLS handshake aborted by an alert of the server on a reconnection attempt (STARTTLS scenarios); client-side certificate policy is C04's. Every fourth behaviour is also played over the WebSocket "
         "transport, every ninth with a 15 ms keepalive (stale-keepalive interference), with Stop() called during an outage, and with the manager stopped and run again between losses (Restart action of the model).",
    technique=TECH),
 "C18": dict(
    text="Keepalive.tla models the keepalive goroutine with the select race between a ready tick and the closed quit channel, ping failure at "
         "the k-th ping and the close that follows; TLC checks ping-per-tick / failure-closes-once / no-ping-after-failure / no-ping-after-end and "
         "quit ~> done, and emits every (failure point, end-of-session point and phase) combination. Each runs the REAL keepalive function against "
         "a stub Transport, the session being ended exactly at the phase the behaviour says (through the ka.tick gate); in addition a real client "
         "runs with intervals 5-40 ms (server timestamps the whitespace), with writes failing from the k-th keepalive on while reads block (the "
         "library must close; the loss must be reported once), the same on a second session of the same client, and with the session ending on "
         "the write path (unwritable <a/>). TLC judges counts, order and the time bounds.",
    note="Trusted: TLC, wall-clock timestamps of the harness (upper bound exact: pings <= elapsed/interval + 1; lower bound tolerant: at least "
         "half). At most one keepalive after the end of a session is accepted (its tick was already due). The real-client rate and failure modes also run over ws: (ping frames seen by a frame spy in the scripted server). "
         "Every session of a StreamManager run (first, resumed, freshly bound after a loss) is observed for 20 intervals through the lifecycle family and must "
         "show its own keepalives; failing pings return plain and timeout-class (net.Error) errors.",
    technique=TECH),
 "C07": dict(
    text="IQRoutes.tla models SendIQ callers, receivers (reading or abandoning), context goroutines, the server and one dispatch goroutine per "
         "inbound IQ with the code's steps (lookup, claim, channel send, close). TLC checks no-panic / at-most-once / own-request / "
         "not-to-ordinary-while-pending / no-stuck / closed-and-removed for all interleavings of 2 requests (distinct and clashing ids) x 3 responses, "
         "and shows that each defect found in the code (D14 x2, D15) violates one of them. Every schedule TLC emits (exhaustive for 1 request x 2 "
         "responses, sampled for 2 x 3) is replayed on a real Client/Router: each call, dispatch, receiver and cancellation is a goroutine stepped "
         "through the gates inside the library in schedule order; gates are never judged. TLC judges the observable outcome: what each channel "
         "yielded, which ordinary handlers ran, who is stuck, what is left in the table, worker death; plus concurrent duplicates through a real connection.",
    note="Trusted: TLC, the gate scheduler (a step that reaches no gate within 40 ms counts as blocked). With clashing ids only safety is asserted. "
         "Every fifth schedule and every third stress scenario is run with a Component (XEP-0114: Component.SendIQ, in-order dispatch) instead of a Client; "
         "every second schedule uses deadline-bearing contexts; stress responses come in four shapes (empty result, error without <error/>, payload plus unknown child, unknown payload).",
    technique=TECH),
 "C02": dict(
    text="StreamParser.tla is the reference semantics of InitStream + NextPacket over token sequences (one output per top-level element, its kind "
         "and addressing attributes, error for unknown namespace/name and where the input is damaged or ends) plus a generator of stream shapes; "
         "TLC checks the reference against the generator's own rendering (one packet per element whatever it contains) for every stream of <= 2 "
         "elements over 19 kinds x 7 content shapes and emits them. The harness serialises each with varied attributes/escapes/prefixes, tokenises "
         "the bytes independently, reads them with the library through many segmentations, every truncation and seeded single-byte corruptions; "
         "TLC runs the reference parser over the LOGGED tokens and compares - so inputs TLC never generated are judged by the specification too.",
    note="Trusted: TLC, encoding/xml's tokeniser (shared with the library under test). After the first error the rest of a stream is unconstrained; "
         "for corrupted inputs only the prefix before the damage, no panic and bounded time (4 s watchdog) are asserted.",
    technique=TECH),
 "C01": dict(
    text="Codec.tla gives, for every abstract stanza value (kind, subset of the five addressing attributes, standard children, error shape, "
         "registered extensions / payload and their order, text class), the element shape the serialiser must produce (Enc) and what the parser "
         "reads back (Dec); TLC checks Dec(Enc(v)) = v and shape-independent-of-text for all values and emits them. Each is built with the "
         "library's own types (payload internals populated by reflection over the struct tags with strings of the class: < > & quotes ]]> "
         "leading/trailing/only whitespace, non-ASCII), marshalled, re-tokenised, parsed back inside a stream, marshalled again; TLC compares the "
         "observed root attributes and child order with Enc, and judges well-formedness, structure-independence of text, parse-back kind, "
         "equality of the parsed value (multiset of field-path/leaf pairs), byte-identical second serialisation.",
    note="Trusted: TLC, encoding/xml (escaping, tokeniser), the reflection walk of the harness. This is the property where the TLA+ "
         "specification adds least over the enumeration it drives (DESIGN.md section 9): the byte level is judged through observations computed "
         "in Go. Not populated: PubSubEvent, PubSubGeneric, PubSubOwner, Command, ControlSet, HTML, Delegation.",
    technique=TECH),
}
