"""What MANIFEST.json claims, per property (bin/mkmanifest.py turns this into MANIFEST.json)."""
HOOK_COMMITS = []
NOTES = ("Every check: TLC model-checks the subsystem specification (exhaustive within the bounds reported in the evidence), "
         "the behaviours TLC emits are replayed into the real code built from /repo's working tree with -tags verif, and the recorded "
         "traces are validated by TLC against the trace specification; verdicts come only from that last step. "
         "Exit 2 (INFRA-ERROR) is never a verdict. Known findings: /verif/KNOWN_FINDINGS.txt.")
NOT_APPLICABLE = {}
TECH = "TLA+ spec + TLC model checking; TLC-generated behaviours replayed into the Go code; recorded traces validated by TLC (trace spec)"
CLAIMS = {
 "C17": dict(
    text="UnAckQueue.tla is the reference FIFO (one action per public method). TLC checks FIFO conservation/order, id monotonicity, "
         "peek purity and pop-n = n pops exhaustively for all operation histories up to the bound, emits every history, the harness "
         "applies each to a real stanza.UnAckQueue logging return value and full queue after every call, and TLC validates every "
         "logged step against the reference functions; plus seeded long histories (bursts, equal payloads, k over the int range).",
    note="Trusted: TLC, the harness projection of queue entries to (id, payload tag), clamping of k to +-10^6 in the log. "
         "Exhaustive only within the stated bounds; beyond them seeded random histories.",
    technique=TECH),
}
