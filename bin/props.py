"""Per-property pipelines. Each function drives: TLC model check (+ behaviour emission) ->
replay into the real code -> TLC trace validation. Verdicts only come from the last step."""
import json, os
import vlib
from vlib import Infra

CHECKS = {}


def check(pid):
    def deco(f):
        CHECKS[pid] = f
        return f
    return deco


def blines(r):
    return r["tagged"].get("B", [])


FAMILY_TRACE = {"sess": ("TraceSession", "Trace_Session.cfg"), "neg": ("TraceNegotiation", "Trace_Negotiation.cfg"),
                "comp": ("TraceComponent", "Trace_Component.cfg"), "c08": ("TraceSendPath", "Trace_SendPath.cfg")}


def replay_or(ctx, family, trace_module, trace_cfg, full, driver_args=(), **tkw):
    """Common tail: if --replay was given run only that scenario, otherwise run `full`."""
    if ctx.replay:
        scen = ctx.replay.get("scenario")
        if scen is None:
            raise Infra("replay file carries no scenario")
        args = []   # generation flags (-burst, -offsets, -variants ...) are not needed: the scenario is concrete
        ctx.seed = ctx.replay.get("seed", ctx.seed)
        fam = ctx.replay.get("family") or family
        trace_module, trace_cfg = FAMILY_TRACE.get(fam, (trace_module, trace_cfg))   # a check may share traces of several families
        out, nev, _ = vlib.run_driver(ctx, fam, scen=[scen], n=0, args=args)
        ctx.verdicts += vlib.tlc_trace(ctx, trace_module, trace_cfg, out, nev, **tkw)
        ctx.states = max(ctx.states, 1)
        ctx.transitions = max(ctx.transitions, 1)
        return True
    full()
    return False


# ------------------------------------------------------------------ C17
@check("C17")
def c17(ctx):
    def full():
        quick = ctx.tier == "quick"
        r = vlib.tlc_mc(ctx, "UnAckQueue", "MC_UnAckQueue.cfg", consts={"MaxOps": 4 if quick else 5, "MaxLen": 3 if quick else 4})
        scen = blines(r)
        # looser Push (any greater id): invariants only
        vlib.tlc_mc(ctx, "UnAckQueue", "MC_UnAckQueue.cfg", consts={"MaxOps": 5 if quick else 6, "IdSlack": 3, "Emit": "FALSE",
                                                                     "KSet": '{"neg", "zero", "one", "len", "len1"}'})
        if not quick:
            rs = vlib.tlc_simulate(ctx, "UnAckQueue", "MC_UnAckQueue.cfg", num=3000, depth=41, seed=ctx.seed,
                                   consts={"MaxOps": 40, "MaxLen": 8})
            scen += blines(rs)
        if not scen:
            raise Infra("TLC emitted no behaviours")
        ctx.exhaustive = True
        ctx.notes["bounds"] = "all operation histories of length %d over {push,pop,peek,empty,popn(k),peekn(k)}, k in {-1,0,1,2,len,len+1,10^6}, queue length <= %d" % (
            4 if quick else 5, 3 if quick else 4)
        out, nev, _ = vlib.run_driver(ctx, "c17", scen=scen, n=2000 if quick else 40000, args=["-len", "60" if quick else "300"])
        ctx.verdicts += vlib.tlc_trace(ctx, "TraceUnAckQueue", "Trace_UnAckQueue.cfg", out, nev)
    replay_or(ctx, "c17", "TraceUnAckQueue", "Trace_UnAckQueue.cfg", full)
    ctx.assumptions += ["payload tags and ids are projected by the harness (stanza string -> integer tag)",
                        "k is clamped to +-10^6 when logged (TLC integers are 32 bit); queues stay far shorter"]


# ------------------------------------------------------------------ C19
@check("C19")
def c19(ctx):
    def full():
        quick = ctx.tier == "quick"
        r = vlib.tlc_mc(ctx, "MC_Backoff", "MC_Backoff.cfg",
                        consts=None if quick else {"MaxOps": 4})
        scen = blines(r)
        if not quick:
            r2 = vlib.tlc_mc(ctx, "MC_Backoff", "MC_Backoff_grid.cfg")
            scen += blines(r2)
        if not scen:
            raise Infra("TLC emitted no behaviours")
        ctx.exhaustive = True
        ctx.notes["bounds"] = "all histories of %d operations over {wait, reset, query(n)} for n in NsDef and the parameter grid of MC_Backoff.tla; seeded histories of up to 80 operations, one in 25 a long outage (70 to 4200, now and then 33000 / 66000 consecutive waits, per-attempt queries during and after it, then a reset)" % (3 if quick else 4)
        out, nev, _ = vlib.run_driver(ctx, "c19", scen=scen, n=3000 if quick else 60000)
        ctx.verdicts += vlib.tlc_trace(ctx, "TraceBackoff", "Trace_Backoff.cfg", out, nev)
    replay_or(ctx, "c19", "TraceBackoff", "Trace_Backoff.cfg", full)
    ctx.assumptions += ["durations are logged in whole milliseconds (a non-integral duration is itself reported)",
                        "attempt numbers above 2*10^9 are logged as 2*10^9: the reference delay saturates after <= 64 multiplications",
                        "caps restricted to values a time.Duration and a 32-bit TLC integer can hold"]


# ------------------------------------------------------------------ C15
@check("C15")
def c15(ctx):
    def full():
        quick = ctx.tier == "quick"
        r = vlib.tlc_mc(ctx, "Jid", "MC_Jid.cfg", consts={"MaxLen": 6 if quick else 8})
        scen = blines(r)
        if not scen:
            raise Infra("TLC emitted no behaviours")
        ctx.exhaustive = True
        ctx.notes["bounds"] = "all strings of length <= %d over the classes {ordinary, @, /, whitespace, forbidden-in-local}, each concretised %d times" % (
            6 if quick else 8, 4 if quick else 6)
        out, nev, _ = vlib.run_driver(ctx, "c15", scen=scen, n=5000 if quick else 100000, args=["-variants", "4" if quick else "6"])
        ctx.verdicts += vlib.tlc_trace(ctx, "TraceJid", "Trace_Jid.cfg", out, nev)
    replay_or(ctx, "c15", "TraceJid", "Trace_Jid.cfg", full)
    ctx.assumptions += ["the rune -> class table of the harness (cmd/driver/c15.go) is trusted",
                        "not asserted: strings with '/' before the first '@' (excluded by the property); ' \" : < > inside a domain"]


# ------------------------------------------------------------------ C20
@check("C20")
def c20(ctx):
    def full():
        quick = ctx.tier == "quick"
        r = vlib.tlc_mc(ctx, "Address", "MC_Address.cfg")
        scen = blines(r)
        if not scen:
            raise Infra("TLC emitted no behaviours")
        ctx.exhaustive = True
        ctx.notes["bounds"] = "every well-formed address form of Address.tla (scheme x host form x brackets x port x client/component), %s" % (
            "12 concretisations each" if quick else "60 concretisations each and every port 1..65535 for the forms with a port")
        args = ["-variants", "12"] if quick else ["-variants", "60", "-allports"]
        out, nev, _ = vlib.run_driver(ctx, "c20", scen=scen, args=args)
        ctx.verdicts += vlib.tlc_trace(ctx, "TraceAddress", "Trace_Address.cfg", out, nev)
    replay_or(ctx, "c20", "TraceAddress", "Trace_Address.cfg", full)
    ctx.assumptions += ["net.SplitHostPort and string equality of the host, computed in the harness, are trusted as the observation of 'valid host:port' and 'keeps the host'",
                        "not asserted: bare IPv6 directly followed by :port (ambiguous), schemes other than ws:/wss:, port 0"]


# ------------------------------------------------------------------ C06
@check("C06")
def c06(ctx):
    def full():
        quick = ctx.tier == "quick"
        r = vlib.tlc_mc(ctx, "MC_Router", "MC_Router.cfg" if quick else "MC_Router_full.cfg", timeout=1500)
        scen = blines(r)
        if not scen:
            raise Infra("TLC emitted no behaviours")
        # routes registered while packets are already being dispatched (one router per history)
        scen += blines(vlib.tlc_mc(ctx, "MC_Router", "MC_Router_hist.cfg", consts=None if quick else {"MaxDisp": 3}, timeout=900))
        ctx.exhaustive = True
        ctx.notes["bounds"] = ("all interleavings of registering 2 routes and dispatching %d packets on one router (reduced alphabet); " % (2 if quick else 3)) + ("all route tables of <= 2 routes over the matcher alphabet of MC_Router.tla (%s) x all packets" %
                               ("quick alphabet" if quick else "full alphabet"))
        out, nev, _ = vlib.run_driver(ctx, "c06", scen=scen, n=20000 if quick else 300000, timeout=1800)
        ctx.verdicts += vlib.tlc_trace(ctx, "TraceRouter", "Trace_Router.cfg", out, nev, timeout=1800)
    replay_or(ctx, "c06", "TraceRouter", "Trace_Router.cfg", full)
    ctx.assumptions += ["replies are observed by re-scanning the serialised reply with a plain XML token scan",
                        "not asserted: namespace matchers against an unregistered IQ payload; upper-case namespaces"]


# ------------------------------------------------------------------ established session: C05 C09 C10 C12
SESSION_INV = ("C05_AtMostOnce C05_OnlyReceivedStanzas C05_RoutedExactlyOnce C05_EveryRAnswered C09_InboundIsStanzaCount "
               "C09_AnswersBounded C10_NonzasNeverHeld C10_NumbersIncreasing C10_HeldOnlyIfSM C10_NothingHeldTwice "
               "C12_ReportedOnce C12_NothingDropped")


def session_cfg(steps, maxsend, maxh, srv, send, sm, lockstep, cut, emit, renumber=True, resume=0):
    b = lambda x: "TRUE" if x else "FALSE"
    return """SPECIFICATION Spec
CONSTANTS
  MaxSteps = %d
  MaxSend = %d
  MaxH = %d
  SrvKinds <- %s
  SendKinds <- %s
  SM = %s
  Renumber = %s
  LockStep = %s
  AllowCut = %s
  MaxResume = %d
  Emit = %s
INVARIANTS %s %s
PROPERTIES C10_AckStep
CHECK_DEADLOCK FALSE
""" % (steps, maxsend, maxh, srv, send, b(sm), b(renumber), b(lockstep), b(cut), resume, b(emit), SESSION_INV, "EmitInv" if emit else "")


def session_check(ctx, gens, mcs, nvar, nburst, extra_scen=(), extra_args=()):
    """gens: list of cfg kwargs for history generation (LockStep); mcs: for interleaving exploration."""
    def full():
        scen = []
        for g in gens:
            r = vlib.tlc_mc(ctx, "MC_Session", "MC_Session_gen.cfg", cfgtext=session_cfg(lockstep=True, emit=True, **g))
            scen += blines(r)
        for m in mcs:
            vlib.tlc_mc(ctx, "MC_Session", "MC_Session_mc.cfg", cfgtext=session_cfg(lockstep=False, emit=False, **m), timeout=1500)
        scen += list(extra_scen)
        if not scen:
            raise Infra("TLC emitted no behaviours")
        out, nev, _ = vlib.run_driver(ctx, "sess", scen=scen, n=nvar, args=["-burst", str(nburst)] + list(extra_args), timeout=2400)
        ctx.verdicts += vlib.tlc_trace(ctx, "TraceSession", "Trace_Session.cfg", out, nev, timeout=2400)
    replay_or(ctx, "sess", "TraceSession", "Trace_Session.cfg", full)
    ctx.assumptions += [
        "barriers (quiescence) are detected with the verif hooks recv.wait/recv.next/recv.classified/route.begin/route.end and a byte counter on the client's connection; hooks only synchronise, they are never judged",
        "retransmissions may or may not be renumbered: a step is a violation only if neither reading explains it",
        "order of handler calls in a client is not asserted; routing of non-stanza elements is not asserted",
        "the scripted negotiation (PLAIN, no TLS, bind, enable with resume) is a precondition; its failure is an infrastructure error"]


@check("C05")
def c05(ctx):
    q = ctx.tier == "quick"
    n = 3 if q else 5
    gens = [dict(steps=n, maxsend=1, maxh=1, srv="SrvC05", send="SendOne", sm=True, cut=False),
            dict(steps=n if q else 4, maxsend=1, maxh=1, srv="SrvC05", send="SendOne", sm=False, cut=False)]
    mcs = [dict(steps=4 if q else 5, maxsend=1, maxh=1, srv="SrvQuick", send="SendOne", sm=True, cut=True)]
    ctx.notes["bounds"] = "all inbound histories of length %d over {msg,pres,iqget,iqset,iqres,iqerr,r,a(h<=1),features} with <=1 user send, SM on (off: length <= 4); all route-goroutine interleavings in the model for length %d" % (n, 4 if q else 5)
    session_check(ctx, gens, mcs, nvar=300 if q else 3000, nburst=150 if q else 2000,
                  extra_args=["-blockers", "6" if q else "40", "-stalls", "12" if q else "120"])
    if not ctx.replay:
        # the component clause: stanzas routed inline, in arrival order (ComponentSession.tla)
        comp_run(ctx, [dict(conns=1, maxstz=3 if q else 4, stz=S("msg", "iqres", "iqget", "pres"))])


@check("C09")
def c09(ctx):
    q = ctx.tier == "quick"
    n = 4 if q else 5
    gens = [dict(steps=n, maxsend=1, maxh=1, srv="SrvC09", send="SendA", sm=True, cut=False),
            # the inbound history goes on across a resumption of the session
            dict(steps=n, maxsend=0, maxh=0, srv="SrvQuick", send="SendA", sm=True, cut=False, resume=1)]
    mcs = [dict(steps=n if q else n + 1, maxsend=1, maxh=1, srv="SrvC09", send="SendA", sm=True, cut=False)]
    ctx.notes["bounds"] = "all inbound histories of length %d over {msg,pres,iqget,r,a(h<=1),features} plus a user-sent answer, SM on; h of <resume/> over all 3-connection histories with SM offered or not per connection and 0..2 stanzas per session" % n
    session_check(ctx, gens, mcs, nvar=300 if q else 3000, nburst=150 if q else 2000)
    if not ctx.replay:
        # the count reported in <resume/>, across connections of one client (Negotiation.tla)
        base = dict(f1=S("notls"), tlsr=S("proceed"), certs=S("valid"), f2=S("mech"), authr=S("success"), bindr=S("result"), sessr=S("result"))
        neg_check(ctx, [dict(configs="CfgC11", conns=3 if q else 4, f3=S("bm", "b"), resr=S("resumed", "failed"), enr=S("enabled"), **base)])
        # responses to pending SendIQ requests are received stanzas too (they take a different path in the receive loop)
        iqs = [{"stress": k, "shape": sh, "ack": True} for k in range(1, 8) for sh in range(4)]
        out, nev, _ = vlib.run_driver(ctx, "c07", scen=iqs, timeout=900)
        ctx.verdicts += vlib.tlc_trace(ctx, "TraceIQRoutes", "Trace_IQRoutes.cfg", out, nev, timeout=600)


@check("C10")
def c10(ctx):
    q = ctx.tier == "quick"
    n = 4 if q else 5
    gens = [dict(steps=n, maxsend=3, maxh=4, srv="SrvC10", send="SendC10", sm=True, cut=False),
            # held stanzas survive a resumption (whatever h the server reports in <resumed/>), and acks go on afterwards
            dict(steps=n, maxsend=2, maxh=3, srv="NoneSet", send="SendOne", sm=True, cut=False, resume=1)]
    mcs = [dict(steps=n, maxsend=3, maxh=4, srv="SrvC10", send="SendC10", sm=True, cut=False),
           dict(steps=n, maxsend=2, maxh=3, srv="SrvC10", send="SendOne", sm=True, cut=False, resume=1),
           dict(steps=n, maxsend=3, maxh=4, srv="SrvC10", send="SendC10", sm=True, cut=False, renumber=False)]
    ctx.notes["bounds"] = "all outbound histories of length %d over Send/SendRaw/SendIQ of stanzas and of <r/>,<a/>, interleaved with server acks h in 0..4 and one inbound stanza kind, SM on" % n
    session_check(ctx, gens, mcs, nvar=200 if q else 2000, nburst=0, extra_args=["-faults", "300" if q else "3000"])
    if not ctx.replay:
        # retransmission CONCURRENT with senders: 2-8 goroutines send while the server answers <a h='0'/> several times
        # (nothing acknowledged: each answer makes the client re-send what it holds); at the end every accepted stanza
        # must be held exactly once, numbered increasingly (TraceSendPath, clauses of C10)
        cs = [{"sm": True, "g": 2 + k % 7, "m": 5 + (k * 7) % 40, "seed": 1000 + k, "acks": 1 + k % 6, "ws": k % 4 == 3, "logger": k % 5 == 0}
              for k in range(40 if q else 400)]
        out, nev, _ = vlib.run_driver(ctx, "c08", scen=cs, timeout=1200)
        ctx.verdicts += vlib.tlc_trace(ctx, "TraceSendPath", "Trace_SendPath.cfg", out, nev, timeout=600)
        ctx.notes["bounds"] += "; concurrent retransmission: %d stress scenarios (2-8 senders x 5-44 sends, 1-6 unacknowledging answers during the run, TCP and WebSocket)" % len(cs)


@check("C12")
def c12(ctx):
    q = ctx.tier == "quick"
    n = 3 if q else 5
    gens = [dict(steps=n, maxsend=1, maxh=1, srv="SrvQuick", send="SendOne", sm=True, cut=True),
            dict(steps=n if q else 4, maxsend=1, maxh=1, srv="SrvQuick", send="SendOne", sm=False, cut=True)]
    mcs = [dict(steps=4 if q else 5, maxsend=1, maxh=1, srv="SrvQuick", send="SendOne", sm=True, cut=True)]
    ctx.notes["bounds"] = "cut after every prefix of every history of length <= %d (SM on/off); seeded variants: RST instead of FIN, chunked writes, cut at byte offsets inside the last element" % n
    session_check(ctx, gens, mcs, nvar=600 if q else 20000, nburst=100 if q else 3000, extra_args=["-offsets", "-stalls", "16" if q else "400"])


# ------------------------------------------------------------------ C08
def sendpath_cfg(senders, per, fails, sm, emit=True):
    return """SPECIFICATION Spec
CONSTANTS
  Senders = %s
  PerSender = %d
  FailAts = %s
  SM = %s
  Split = FALSE
  Emit = %s
INVARIANTS C08_Whole C08_WireIsShuffle C08_FailedWriteReported C10_AllPushedOnce %s
CHECK_DEADLOCK FALSE
""" % (senders, per, fails, "TRUE" if sm else "FALSE", "TRUE" if emit else "FALSE", "EmitInv" if emit else "")


@check("C08")
def c08(ctx):
    def full():
        q = ctx.tier == "quick"
        scen = []
        for sm in (True, False):
            r = vlib.tlc_mc(ctx, "SendPath", "MC_SendPath.cfg", cfgtext=sendpath_cfg("{1, 2}", 2, "{0, 1, 2, 3}" if sm else "{0, 2}", sm))
            scen += blines(r)
        if not q:
            r = vlib.tlc_mc(ctx, "SendPath", "MC_SendPath.cfg", cfgtext=sendpath_cfg("{1, 2, 3}", 2, "{0}", True))
            three = blines(r)
            # 34 650 schedules of 3 senders x 2 sends: replaying all of them through the gates takes over 40 minutes
            # (measured); a seeded sample of 6000 is replayed, the model checker has covered all of them
            import random
            random.Random(ctx.seed).shuffle(three)
            scen += three[:6000]
            ctx.notes["sampled"] = "3-sender schedules: 6000 of %d replayed (seeded sample)" % len(three)
        # interleavings of 3 senders x 2 sends, invariants only
        vlib.tlc_mc(ctx, "SendPath", "MC_SendPath.cfg", cfgtext=sendpath_cfg("{1, 2, 3}", 2, "{0, 1, 4}" if q else "{0, 1, 2, 3, 4, 5}", True, emit=False))
        if not q:
            # 3 x 3 does not finish in 10 minutes (measured); 2 senders x 4 sends: 146 k states, 3 s
            vlib.tlc_mc(ctx, "SendPath", "MC_SendPath.cfg", cfgtext=sendpath_cfg("{1, 2}", 4, "{0, 1, 5}", True, emit=False))
        # non-vacuity: the split-write variant must violate C08_Whole
        r = vlib.run_tlc(ctx, "SendPath", "MC_SendPath_split.cfg", workers=1, timeout=120)
        if r["code"] != 12:
            raise Infra("non-vacuity check failed: the split-write variant did not violate C08_Whole (exit %d)" % r["code"])
        ctx.notes["non_vacuity"] = "MC_SendPath_split.cfg (two Write calls per send) violates C08_Whole, as it must"
        ctx.exhaustive = True
        ctx.notes["bounds"] = "all schedules of 2 senders x 2 sends (3 x 2 thorough) through the gate between serialisation/push and the transport write, x write fault at the k-th write, SM on/off, stream logger on/off; stress: up to 8 senders x 50 sends"
        out, nev, _ = vlib.run_driver(ctx, "c08", scen=scen, args=["-stress", "60" if q else "600"], timeout=2400)
        ctx.verdicts += vlib.tlc_trace(ctx, "TraceSendPath", "Trace_SendPath.cfg", out, nev, timeout=1800)
    replay_or(ctx, "c08", "TraceSendPath", "Trace_SendPath.cfg", full)
    ctx.assumptions += ["expected bytes are xml.Marshal of the harness's own copy of the stanza / the raw string; the server compares them with the exact bytes of each top-level element it received",
                        "atomicity of a single transport Write call is the operating system's / crypto/tls's guarantee",
                        "gates only order the senders; they are never judged"]


# ------------------------------------------------------------------ negotiation: C03 C04 C11 C14
NEG_INV = ("C04_NoSecretInClear C03_WireOrder C03_AtMostOnceEach C03_SuccessNeedsSteps C11_ResumeOnlyWithId C11_ResumedMeansNoBind "
           "C14_OnlyAdvertisedMech C14_MechMatchesCredential")


def S(*xs):
    return "{" + ", ".join('"%s"' % x for x in xs) + "}"


def neg_cfg(configs, conns, f1, tlsr, certs, f2, authr, f3, resr, bindr, sessr, enr, mechs="MechPlain", emit=True):
    return """SPECIFICATION Spec
CONSTANTS
  Configs <- %s
  MaxConns = %d
  F1s = %s
  TlsRs = %s
  Certs = %s
  F2s = %s
  AuthRs = %s
  F3s = %s
  ResRs = %s
  BindRs = %s
  SessRs = %s
  EnRs = %s
  MechLists <- %s
  Emit = %s
INVARIANTS %s %s
CHECK_DEADLOCK FALSE
""" % (configs, conns, f1, tlsr, certs, f2, authr, f3, resr, bindr, sessr, enr, mechs, "TRUE" if emit else "FALSE", NEG_INV, "EmitInv" if emit else "")


def neg_check(ctx, gens, driver_args=()):
    def full():
        scen = []
        for g in gens:
            r = vlib.tlc_mc(ctx, "MC_Negotiation", "MC_Negotiation.cfg", cfgtext=neg_cfg(**g), timeout=1200)
            scen += blines(r)
        if not scen:
            raise Infra("TLC emitted no behaviours")
        ctx.exhaustive = True
        # -lenient: after the scripted replies the server keeps answering any further request with success, as a real
        # server would: a client that wrongly carries on shows what it would do (and a correct one is unaffected)
        out, nev, _ = vlib.run_driver(ctx, "neg", scen=scen, args=["-lenient"] + list(driver_args), timeout=3000)
        ctx.verdicts += vlib.tlc_trace(ctx, "TraceNegotiation", "Trace_Negotiation.cfg", out, nev, timeout=2400)
    replay_or(ctx, "neg", "TraceNegotiation", "Trace_Negotiation.cfg", full)
    ctx.assumptions += ["the scripted server replies only after it has read the request of the stage; elements are classified by name/namespace by the harness",
                        "error texts, IQ ids and the Permanent flag (except for rejected credentials / no common mechanism) are not asserted",
                        "in insecure mode both 'STARTTLS attempted' and 'not attempted' are accepted"]


@check("C03")
def c03(ctx):
    q = ctx.tier == "quick"
    allfail = dict(f1=S("tls", "notls", "bad", "close", "other"), tlsr=S("proceed", "failure", "other", "garbage", "close"),
                   certs=S("valid", "untrusted"), f2=S("mech", "close"), authr=S("success", "successdata", "failure", "other", "garbage", "close"),
                   f3=S("b", "bs", "bo", "bm", "bsm", "close"), resr=S("resumed"), bindr=S("result", "resultempty", "resultother", "error", "errorecho", "other", "close"),
                   sessr=S("result", "error", "close"), enr=S("enabled", "enablednoresume", "failed", "failedbare", "other", "close"))
    gens = [dict(configs="CfgC03", conns=1, **allfail),
            # a failed attempt must not poison the next one on the same client object
            dict(configs="CfgC03two", conns=2, f1=S("notls", "close"), tlsr=S("proceed"), certs=S("valid"), f2=S("mech"),
                 authr=S("success", "failure", "close"), f3=S("bm", "close"), resr=S("resumed", "failed", "other", "unknownel", "close"), bindr=S("result", "error", "close"),
                 sessr=S("result"), enr=S("enabled", "failed", "close"))]
    # every reply to <auth/> - also well-formed elements that are no answer to it - for both credential kinds
    gens.append(dict(configs="CfgC03tok", conns=1, f1=S("notls"), tlsr=S("proceed"), certs=S("valid"), f2=S("mech"),
                     authr=S("success", "successdata", "failure", "failuretext", "other", "stanza", "features", "smnonza", "garbage", "close"),
                     f3=S("b", "bm", "close"), resr=S("resumed"), bindr=S("result", "error", "close"), sessr=S("result"), enr=S("enabled", "failed"),
                     mechs="MechBoth"))
    gens.append(dict(configs="CfgC03two", conns=1, f1=S("notls"), tlsr=S("proceed"), certs=S("valid"), f2=S("mech"),
                     authr=S("stanza", "features", "smnonza"), f3=S("b"), resr=S("resumed"), bindr=S("result"), sessr=S("result"), enr=S("enabled")))
    if not q:
        # three attempts on one client object, failures in between; optional legacy session with and without stream management
        gens.append(dict(configs="CfgC03two", conns=3, f1=S("notls", "close"), tlsr=S("proceed"), certs=S("valid"), f2=S("mech"),
                         authr=S("success", "failure", "close"), f3=S("bm", "close"), resr=S("resumed", "failed", "close"), bindr=S("result", "error"),
                         sessr=S("result"), enr=S("enabled", "failed")))
        gens.append(dict(configs="CfgC03", conns=1, f1=S("tls", "tlsreq", "notls"), tlsr=S("proceed", "failure"), certs=S("valid", "wronghost", "expired"),
                         f2=S("mech", "close"), authr=S("success", "failuretext"), f3=S("bo", "bom", "bs", "bsm"), resr=S("resumed"),
                         bindr=S("result", "error"), sessr=S("result", "error", "close"), enr=S("enabled", "enablednoresume", "failed")))
    # the same alphabets over the WebSocket transport (no STARTTLS stages; wss: with the certificate checked by the dial)
    gens.append(dict(configs="CfgC03ws", conns=1, f1=S("notls", "bad", "close", "other"), tlsr=S("proceed"), certs=S("valid", "untrusted"), f2=S("mech"),
                     authr=S("success", "failure", "other", "garbage", "close"), f3=S("b", "bs", "bm", "close"), resr=S("resumed"),
                     bindr=S("result", "resultempty", "error", "errorecho", "other", "close"), sessr=S("result", "error", "close"),
                     enr=S("enabled", "enablednoresume", "failed", "failedbare", "other", "close")))
    ctx.notes["bounds"] = "every server behaviour from the per-step alphabets (success variants, failure/error reply, unexpected element, malformed XML, closed) at each of the negotiation steps x {insecure, stream management} (one connection); resumption steps are C11's"
    neg_check(ctx, gens)


@check("C04")
def c04(ctx):
    q = ctx.tier == "quick"
    gens = [dict(configs="CfgC04", conns=1, f1=S("tls", "tlsreq", "notls"), tlsr=S("proceed", "failure", "other", "garbage", "close"),
                 certs=S("valid", "wronghost", "untrusted", "expired", "nottls"), f2=S("mech", "close"), authr=S("success", "failure"),
                 f3=S("b"), resr=S("resumed"), bindr=S("result"), sessr=S("result"), enr=S("enabled")),
            # the flags that record "this connection is secure" live in objects that are reused: 2 and 3 connections on one client
            dict(configs="CfgC04multi", conns=2 if q else 3, f1=S("tls", "notls"), tlsr=S("proceed", "failure"),
                 certs=S("valid", "untrusted"), f2=S("mech"), authr=S("success"),
                 f3=S("b", "bm"), resr=S("resumed", "failed"), bindr=S("result"), sessr=S("result"), enr=S("enabled"))]
    # TLS session resumption must not short-cut the domain check: a server with session tickets, a certificate valid for
    # the configured ServerName but not for the domain, several connections on one client
    gens.append(dict(configs="CfgC04sn", conns=2 if q else 3, f1=S("tls"), tlsr=S("proceed"), certs=S("wronghost", "valid"), f2=S("mech"),
                     authr=S("success"), f3=S("b"), resr=S("resumed"), bindr=S("result"), sessr=S("result"), enr=S("enabled")))
    # WebSocket: ws: must not carry credentials unless insecure mode is on; wss: only after the dial accepted the certificate
    gens.append(dict(configs="CfgC04ws", conns=1 if q else 2, f1=S("tls", "tlsreq", "notls"), tlsr=S("proceed"), certs=S("valid", "wronghost", "untrusted", "expired"),
                     f2=S("mech"), authr=S("success", "failure"), f3=S("b"), resr=S("resumed"), bindr=S("result"), sessr=S("result"), enr=S("enabled")))
    gens.append(dict(configs="CfgC04wssn", conns=1, f1=S("notls"), tlsr=S("proceed"), certs=S("valid", "wronghost", "untrusted"),
                     f2=S("mech"), authr=S("success"), f3=S("b"), resr=S("resumed"), bindr=S("result"), sessr=S("result"), enr=S("enabled")))
    ctx.notes["bounds"] = "Insecure on/off x TLS config {none, CA, CA+ServerName, CA+other ServerName, InsecureSkipVerify} x STARTTLS {not offered, offered, required} x reply {proceed, failure, unexpected, garbage, close} x certificate {valid, wrong host, untrusted, expired, not TLS}; plus 2 (thorough 3) connections on one client object; WebSocket transport: ws:/wss: x Insecure on/off x certificate {valid, wrong host, untrusted, expired}; after the scripted replies the server stays lenient (answers any further request with success) so that a confused client shows what it would send"
    neg_check(ctx, gens)


@check("C11")
def c11(ctx):
    q = ctx.tier == "quick"
    base = dict(f1=S("notls"), tlsr=S("proceed"), certs=S("valid"), f2=S("mech"), authr=S("success"), bindr=S("result"), sessr=S("result"))
    gens = [dict(configs="CfgC11", conns=3, f3=S("bm", "b"), resr=S("resumed", "resumedother", "failed", "faileditem", "failedcond", "other", "unknownel", "close", "reset"),
                 enr=S("enabled", "enablednoresume"), **base)]
    if not q:
        gens.append(dict(configs="CfgC11b", conns=4, f3=S("bm", "b"), resr=S("resumed", "resumedother", "failed", "other"),
                         enr=S("enabled", "enablednoresume", "failed"), **base))
    # after a refused resumption the fresh bind fails too (conflict, closed): the refused id must be gone all the same
    gens.append(dict(configs="CfgC11", conns=3, f1=S("notls"), tlsr=S("proceed"), certs=S("valid"), f2=S("mech"), authr=S("success"),
                     f3=S("bm"), resr=S("resumed", "failed", "faileditem"), bindr=S("result", "error", "close"), sessr=S("result"),
                     enr=S("enabled", "failed")))
    gens.append(dict(configs="CfgC11ws", conns=3, f3=S("bm", "b"), resr=S("resumed", "resumedother", "failed", "faileditem", "close"),
                     enr=S("enabled", "enablednoresume"), **base))
    ctx.notes["bounds"] = "all histories of %d connections on one client (Connect and Resume as reconnect entry points), stream management advertised or not on each, <enabled> with/without resumption, every reply to <resume/> {resumed same id, other id, failed, failed+item-not-found, failed with each of 29 conditions and a text, unexpected, closed}, 0..2 stanzas received per session" % (3 if q else 4)
    neg_check(ctx, gens)


@check("C14")
def c14(ctx):
    q = ctx.tier == "quick"
    gens = [dict(configs="CfgC14", conns=1, f1=S("notls"), tlsr=S("proceed"), certs=S("valid"), f2=S("mech"),
                 authr=S("success", "successdata", "failure", "failuretext", "other", "garbage", "close"), f3=S("b"), resr=S("resumed"),
                 bindr=S("result"), sessr=S("result"), enr=S("enabled"), mechs="MechAll"),
            # mechanism lists change between connections of one client
            dict(configs="CfgC14", conns=2, f1=S("notls"), tlsr=S("proceed"), certs=S("valid"), f2=S("mech"),
                 authr=S("success"), f3=S("b"), resr=S("resumed"), bindr=S("result"), sessr=S("result"), enr=S("enabled"), mechs="MechAll")]
    # the same over the WebSocket transport (with and without a stream logger: every third scenario has one)
    gens.append(dict(configs="CfgC14ws", conns=1, f1=S("notls"), tlsr=S("proceed"), certs=S("valid"), f2=S("mech"),
                     authr=S("success", "failure"), f3=S("b"), resr=S("resumed"), bindr=S("result"), sessr=S("result"), enr=S("enabled"), mechs="MechAll"))
    ctx.notes["bounds"] = "both credential kinds x 11 server mechanism lists (empty, unknown only, duplicates, both orders, wrong case) x every reply to <auth/>; two connections with independent lists; user names and secrets from byte classes (NUL-adjacent, non-ASCII, XML metacharacters, leading/trailing whitespace, long)"
    neg_check(ctx, gens, driver_args=["-creds"])


# ------------------------------------------------------------------ component: C16 (+ component clause of C05)
def comp_cfg(conns, maxstz, stz, emit=True):
    return """SPECIFICATION Spec
CONSTANTS
  IdClasses = {"plain", "escaped", "nonascii", "long", "ctrl", "absent"}
  Replies = {"handshake", "err-conflict", "err-host-unknown", "err-not-authorized", "other", "malformed", "close", "streamclose",
             "hs-trunc", "hs-text-close", "hs-streamclose", "hs-badend", "hs-badentity"}
  MaxConns = %d
  MaxStz = %d
  StzKinds = %s
  Emit = %s
INVARIANTS C16_EstablishedIffHandshake C16_NothingRoutedUnlessEstablished C05_ComponentInOrder %s
CHECK_DEADLOCK FALSE
""" % (conns, maxstz, stz, "TRUE" if emit else "FALSE", "EmitInv" if emit else "")


def comp_run(ctx, gens):
    scen = []
    for g in gens:
        r = vlib.tlc_mc(ctx, "ComponentSession", "MC_Component.cfg", cfgtext=comp_cfg(**g))
        scen += blines(r)
    if not scen:
        raise Infra("TLC emitted no behaviours")
    out, nev, _ = vlib.run_driver(ctx, "comp", scen=scen, timeout=2400)
    ctx.verdicts += vlib.tlc_trace(ctx, "TraceComponent", "Trace_Component.cfg", out, nev, timeout=1800)


@check("C16")
def c16(ctx):
    q = ctx.tier == "quick"
    def full():
        # 3 connections x 78 (id class, reply) pairs x stanzas is 1.5 M behaviours / 44 M events: over half an hour (measured); 2 connections
        # with two stanza kinds, and 3 connections with one stanza and a smaller part of the alphabet are done instead
        comp_run(ctx, [dict(conns=2, maxstz=1, stz=S("msg")), dict(conns=1 if q else 2, maxstz=2, stz=S("msg", "iqres"))])
        ctx.exhaustive = True
        ctx.notes["bounds"] = "stream id classes {plain, with escaped XML metacharacters, non-ASCII, 320 chars, TAB/LF/CR as character references and odd spaces, absent} x replies {handshake, 3 stream errors, unexpected element, malformed, closed, stream close} x 2 connections on one Component x 4 secrets"
    replay_or(ctx, "comp", "TraceComponent", "Trace_Component.cfg", full)
    ctx.assumptions += ["the reference digest is crypto/sha1 + hex of (unescaped stream id + secret) computed in the harness (DESIGN.md section 9)"]


# ------------------------------------------------------------------ C13
def life_cfg(rounds, attempts, outcomes, sm, d6=False, d12=False, d27=False, d26=False, d28=False, emit=True, inv=None, restarts=0, disarm=False, props=True, guardpost=False):
    b = lambda x: "TRUE" if x else "FALSE"
    return """SPECIFICATION Spec
CONSTANTS
  MaxRounds = %d
  MaxAttempts = %d
  Outcomes = %s
  Drops = {"abrupt", "graceful"}
  SM = %s
  TeardownEmitsDisconnected = %s
  GracefulCloseBlocks = %s
  DialErrorPermanent = %s
  KeepaliveOutlivesSession = %s
  FailedDialClearsConn = %s
  MaxRestarts = %d
  StopDisarms = %s
  GuardHeldDuringPost = %s
  Emit = %s
INVARIANTS %s %s
%s
CHECK_DEADLOCK FALSE
""" % (rounds, attempts, outcomes, b(sm), b(d6), b(d12), b(d27), b(d26), b(d28), restarts, b(disarm), b(guardpost), b(emit),
       inv or "C13_AtMostOneLoop C13_LossStartsALoop C13_OneSessionPerLoss C13_PostConnectOncePerSession C13_AtMostOneLiveSession C13_PermanentEndsLoop C13_OnlyPermanentErrorsEndLoop C13_StopReturnsRun C13_NoPanic C18_KeepaliveEndsWithSession",
       "EmitInv" if emit else "", "PROPERTIES C13_LossLeadsToSession" if props else "")


@check("C13")
def c13(ctx):
    q = ctx.tier == "quick"
    def full():
        scen = []
        allo = S("refuse", "reset", "transient", "auth", "authtext")
        gens = [dict(rounds=1, attempts=2, outcomes=allo, sm=True), dict(rounds=1, attempts=1, outcomes=allo, sm=False),
                dict(rounds=2, attempts=1, outcomes=S("refuse") if q else S("refuse", "transient"), sm=True),
                # STARTTLS on every connection; on a reconnection attempt the SERVER aborts the handshake with a TLS alert
                dict(rounds=1 if q else 2, attempts=2, outcomes=S("tlsalert", "refuse", "reset"), sm=True),
                # the application stops the manager and runs it again, losses before and after
                dict(rounds=2 if q else 3, attempts=1, outcomes=S("refuse") if q else S("refuse", "reset"), sm=True, restarts=1)]
        if not q:
            gens += [dict(rounds=2, attempts=2, outcomes=allo, sm=True), dict(rounds=3, attempts=1, outcomes=S("reset", "transient"), sm=False)]
        for g in gens:
            scen += blines(vlib.tlc_mc(ctx, "Lifecycle", "MC_Lifecycle.cfg", cfgtext=life_cfg(**g)))
        # non-vacuity: the three defects found in the code violate the properties in the model
        for name, kw, code in (("D6 teardown reader emits Disconnected", dict(d6=True), 12), ("D12 graceful close blocks", dict(d12=True), 12),
                               ("D27 dial error permanent", dict(d27=True), 12),
                               ("D26 keepalive outlives its session: ends the re-established session", dict(d26=True, inv="C13_OneSessionPerLoss"), 12),
                               ("D28 failed dial clears the connection a stale keepalive pings", dict(d26=True, d28=True, inv="C13_NoPanic"), 12)):
            r = vlib.run_tlc(ctx, "Lifecycle", "MC_Lifecycle.cfg", workers=2, timeout=300,
                             cfgtext=life_cfg(rounds=2, attempts=2, outcomes=allo, sm=True, emit=False, **kw))
            if r["code"] != code:
                raise Infra("non-vacuity: the model variant '%s' did not violate a C13 property (exit %d)" % (name, r["code"]))
        r = vlib.run_tlc(ctx, "Lifecycle", "MC_Lifecycle.cfg", workers=2, timeout=300,
                         cfgtext=life_cfg(rounds=2, attempts=1, outcomes=S("refuse"), sm=True, emit=False, restarts=1, disarm=True))
        if r["code"] not in (12, 13):
            raise Infra("non-vacuity: the variant in which Stop disarms the manager violated neither C13_LossStartsALoop nor C13_LossLeadsToSession (exit %d)" % r["code"])
        r = vlib.run_tlc(ctx, "Lifecycle", "MC_Lifecycle.cfg", workers=2, timeout=300,
                         cfgtext=life_cfg(rounds=2, attempts=1, outcomes=S("refuse"), sm=True, emit=False, guardpost=True, inv="C13_LossStartsALoop", props=False))
        if r["code"] != 12:
            raise Infra("non-vacuity: the variant whose reconnection guard is held during the post-connect callback did not violate C13_LossStartsALoop (exit %d)" % r["code"])
        ctx.notes["non_vacuity"] = "model variants with D6 / D12 / D27 / D26 / D28 (code as found) each violate a C13 invariant; so do the seeded variants StopDisarms and GuardHeldDuringPost"
        ctx.exhaustive = True
        ctx.notes["bounds"] = "fault sequences: k<=%d losses (abrupt reset / graceful stream close) x up to 2 failing attempts per loss from {connection refused, reset at open, negotiation torn down, credentials rejected} x resumption accepted or refused, SM on/off, each loss also while the post-connect callback of the session just established is still running, then Stop" % (2 if q else 3)
        out, nev, _ = vlib.run_driver(ctx, "life", scen=scen, timeout=3000)
        ctx.verdicts += vlib.tlc_trace(ctx, "TraceLifecycle", "Trace_Lifecycle.cfg", out, nev, timeout=1800)
    replay_or(ctx, "life", "TraceLifecycle", "Trace_Lifecycle.cfg", full)
    ctx.assumptions += ["bounded waits: a new session must appear within 6 s of the server accepting connections again (back-off delays are tens of ms); 'no further attempt' is observed for 0.5 s",
                        "TLS-policy permanent errors are covered by the negotiation model (C04); here the permanent error is rejected credentials"]
FAMILY_TRACE["life"] = ("TraceLifecycle", "Trace_Lifecycle.cfg")


# ------------------------------------------------------------------ C18
@check("C18")
def c18(ctx):
    q = ctx.tier == "quick"
    def full():
        cfgtext = """SPECIFICATION Spec
CONSTANTS
  MaxTicks = %d
  FailAts = %s
  QuitPhases = {"idle", "attick", "never"}
  Emit = TRUE
INVARIANTS C18_PingPerTick C18_FailureClosesOnce C18_NoPingAfterFailure C18_NoPingAfterEnd EmitInv
PROPERTIES C18_StopsWithSession
CHECK_DEADLOCK FALSE
""" % (4 if q else 6, "{0, 1, 2, 3, 4}" if q else "{0, 1, 2, 3, 4, 5, 6}")
        r = vlib.tlc_mc(ctx, "Keepalive", "MC_Keepalive.cfg", cfgtext=cfgtext)
        scen = blines(r)
        if not scen:
            raise Infra("TLC emitted no behaviours")
        ctx.exhaustive = True
        ctx.notes["bounds"] = "keepalive goroutine: write failure at the k-th ping for k<=%d, session end after n<=%d pings while idle / with a tick already consumed / never, all tick-vs-quit races in the model; real client: intervals 5..40 ms (thorough 5..150 ms), SM on/off, write failure at the k-th keepalive for k<=4 with reads blocking" % ((4, 4) if q else (6, 6))
        out, nev, _ = vlib.run_driver(ctx, "c18", scen=scen, timeout=1800)
        ctx.verdicts += vlib.tlc_trace(ctx, "TraceKeepalive", "Trace_Keepalive.cfg", out, nev)
        # every session has its keepalive, also the ones the StreamManager re-establishes: lifecycle behaviours with a keepalive interval
        lscen = []
        for g in [dict(rounds=1, attempts=1, outcomes=S("refuse", "transient"), sm=True), dict(rounds=2 if q else 3, attempts=1, outcomes=S("reset"), sm=False)]:
            lscen += blines(vlib.tlc_mc(ctx, "Lifecycle", "MC_Lifecycle.cfg", cfgtext=life_cfg(**g)))
        r = vlib.run_tlc(ctx, "Lifecycle", "MC_Lifecycle.cfg", workers=2, timeout=300,
                         cfgtext=life_cfg(rounds=1, attempts=1, outcomes=S("refuse"), sm=True, emit=False, d26=True, inv="C18_KeepaliveEndsWithSession"))
        if r["code"] != 12:
            raise Infra("non-vacuity: the Lifecycle variant with a keepalive that outlives its session did not violate C18_KeepaliveEndsWithSession (exit %d)" % r["code"])
        ctx.notes["non_vacuity_lifecycle"] = "Lifecycle.tla with KeepaliveOutlivesSession (code as found, D26) violates C18_KeepaliveEndsWithSession"
        out, nev, _ = vlib.run_driver(ctx, "life", scen=lscen, args=["-kaonly"], timeout=1800)
        ctx.verdicts += vlib.tlc_trace(ctx, "TraceLifecycle", "Trace_Lifecycle.cfg", out, nev, timeout=900)
    replay_or(ctx, "c18", "TraceKeepalive", "Trace_Keepalive.cfg", full)
    ctx.assumptions += ["real time: upper bound exact (pings <= elapsed/interval + 1), lower bound tolerant (>= half); at most one keepalive after the session ended (its tick was already due)",
                        "every session of a StreamManager run (first and re-established, resumed or freshly bound) is observed for 20 intervals and must show at least a quarter of the expected keepalives",
                        "stale-keepalive interference during a reconnection (old session's goroutine vs the new connection) is not covered"]
FAMILY_TRACE["c18"] = ("TraceKeepalive", "Trace_Keepalive.cfg")


# ------------------------------------------------------------------ C07
IQ_INV = "C07_NoPanic C07_AtMostOnce C07_OnlyOwnRequest C07_NotToOrdinaryWhilePending C07_NoStuck C07_ClosedAndRemoved C07_DeliveredXorOrdinary"


def iq_cfg(reqs, idof, maxresp, steps, regfirst, atomic, buffered, emit, inv=True, view=False):
    b = lambda x: "TRUE" if x else "FALSE"
    return """SPECIFICATION Spec
CONSTANTS
  Reqs <- %s
  IdOf <- %s
  Ids = {1, 2}
  MaxResp = %d
  MaxSteps = %d
  RegisterFirst = %s
  AtomicClaim = %s
  Buffered = %s
  Emit = %s
INVARIANTS %s %s
%s
CHECK_DEADLOCK FALSE
""" % (reqs, idof, maxresp, steps, b(regfirst), b(atomic), b(buffered), b(emit), IQ_INV if inv else "", "EmitInv" if emit else "",
       "VIEW View" if view else "")


@check("C07")
def c07(ctx):
    q = ctx.tier == "quick"
    def full():
        scen = []
        # schedules: the intended design's shape and the finer shape of the code as it was found (two-step SendIQ,
        # four-step dispatch); the latter violates the invariants in the model, so it is emitted without them
        n1 = 6 if q else 7
        for kw in (dict(reqs="ReqsOne", idof="IdOne", maxresp=2, steps=n1, regfirst=True, atomic=True, buffered=True, emit=True),
                   dict(reqs="ReqsOne", idof="IdOne", maxresp=2, steps=n1 + 1, regfirst=False, atomic=False, buffered=True, emit=True, inv=False)):
            scen += blines(vlib.tlc_mc(ctx, "MC_IQRoutes", "MC_IQRoutes.cfg", cfgtext=iq_cfg(**kw), timeout=900))
        two = vlib.tlc_simulate(ctx, "MC_IQRoutes", "MC_IQRoutes.cfg", num=250 if q else 3000, depth=13, seed=ctx.seed,
                                cfgtext=iq_cfg(reqs="ReqsTwo", idof="IdClash" if ctx.seed % 2 else "IdDistinct", maxresp=3, steps=12,
                                               regfirst=False, atomic=False, buffered=True, emit=True, inv=False))
        scen += blines(two)
        # all interleavings of 2 requests (distinct and clashing ids) x 3 responses in the model of the intended design
        for idof in ("IdDistinct", "IdClash"):
            vlib.tlc_mc(ctx, "MC_IQRoutes", "MC_IQRoutes.cfg", timeout=900,
                        cfgtext=iq_cfg(reqs="ReqsTwo", idof=idof, maxresp=3, steps=40, regfirst=True, atomic=True, buffered=True, emit=False, view=True))
        # non-vacuity: each defect found in the code violates a property in the model
        for name, kw in (("D15 register after write", dict(regfirst=False, atomic=True, buffered=True)),
                         ("D14 lookup and delete in separate critical sections", dict(regfirst=True, atomic=False, buffered=True)),
                         ("D14 unbuffered channel", dict(regfirst=True, atomic=True, buffered=False))):
            r = vlib.run_tlc(ctx, "MC_IQRoutes", "MC_IQRoutes.cfg", workers=4, timeout=300,
                             cfgtext=iq_cfg(reqs="ReqsTwo", idof="IdDistinct", maxresp=3, steps=40, emit=False, view=True, **kw))
            if r["code"] != 12:
                raise Infra("non-vacuity: model variant '%s' did not violate a C07 invariant (exit %d)" % (name, r["code"]))
        ctx.notes["non_vacuity"] = "model variants D15 (register after write), D14 (separate critical sections), D14 (unbuffered channel) each violate a C07 invariant"
        ctx.notes["bounds"] = "every schedule of length %d of 1 request x 2 responses (SendIQ in two steps, dispatch in up to four, receiver reading or abandoning, context cancellation), %d random schedules of 2 requests (distinct or clashing ids) x 3 responses, duplicates sent concurrently through a real connection; all interleavings of 2 requests x 3 responses in the model" % (n1, 250 if q else 3000)
        out, nev, _ = vlib.run_driver(ctx, "c07", scen=scen, args=["-stress", "56" if q else "280"], timeout=3000)
        ctx.verdicts += vlib.tlc_trace(ctx, "TraceIQRoutes", "Trace_IQRoutes.cfg", out, nev, timeout=1800)
    replay_or(ctx, "c07", "TraceIQRoutes", "Trace_IQRoutes.cfg", full)
    ctx.assumptions += ["gates (hooks route.lookup/deleted/sent/closed, sendiq.written, iqroute.ctxdone) only order the goroutines; a step that reaches no gate within 40 ms is taken as blocked and the schedule goes on",
                        "with clashing ids only safety is asserted (no crash, no block, at most once, own id); which of two concurrent matching responses wins is not asserted"]
FAMILY_TRACE["c07"] = ("TraceIQRoutes", "Trace_IQRoutes.cfg")


# ------------------------------------------------------------------ C02
@check("C02")
def c02(ctx):
    q = ctx.tier == "quick"
    tops = S("message", "presence", "iq", "features", "streamerror", "success", "failure", "enabled", "resumed", "r", "a", "failed", "handshake",
             "cmessage", "ciq", "unknownns", "unknownname", "smunknown", "saslunknown")
    fills = S("empty", "text", "known", "unknown", "same", "deep", "two", "errcond", "regext")
    def cfg(n, t=tops, f=fills):
        return """SPECIFICATION GSpec
CONSTANTS
  Tops = %s
  Fills = %s
  MaxElems = %d
  Emit = TRUE
INVARIANTS C02_OnePacketPerTopLevelElement EmitInv
CHECK_DEADLOCK FALSE
""" % (t, f, n)
    def full():
        scen = blines(vlib.tlc_mc(ctx, "StreamParser", "MC_StreamParser.cfg", cfgtext=cfg(2)))
        if not q:
            scen += blines(vlib.tlc_mc(ctx, "StreamParser", "MC_StreamParser.cfg",
                                       cfgtext=cfg(3, S("message", "presence", "iq", "features", "r", "a", "cmessage", "unknownname"), S("empty", "known", "same", "two", "errcond", "regext"))))
        ctx.exhaustive = True
        ctx.notes["bounds"] = "all streams of <= 2 top-level elements (thorough: <= 3 over a reduced alphabet) over 19 top-level kinds (stanzas of both namespaces, features, stream error, SASL, the six SM elements, handshake, unknown namespace / name) x 9 content shapes (children with every extension name registered at run time, carrying the attributes their Go types declare with odd but legal values; empty, text, known child, unknown nested, descendant named like the element, 4-deep nesting, direct child named like the element, <error/> child with each of the 23 defined conditions with and without content / text / application condition); segmentations: whole, 1 byte per read, single split points, seeded multi-splits; every truncation of %d streams; %d single-byte corruptions" % ((6, 3000) if q else (60, 60000))
        out, nev, _ = vlib.run_driver(ctx, "c02", scen=scen, args=["-splits", "12" if q else "60", "-trunc", "6" if q else "60", "-corrupt", "3000" if q else "60000"], timeout=3000)
        ctx.verdicts += vlib.tlc_trace(ctx, "TraceStreamParser", "Trace_StreamParser.cfg", out, nev, timeout=2400)
    replay_or(ctx, "c02", "TraceStreamParser", "Trace_StreamParser.cfg", full)
    ctx.assumptions += ["tokens are produced by encoding/xml from the same bytes (the standard library's tokeniser is trusted; the library under test uses it too)",
                        "after the first error the rest of a stream is unconstrained; for corrupted inputs only the elements that end before the damaged byte, no panic and bounded time are asserted",
                        "which children land in which field is C01's business; prefixed addressing attributes (foo:to) are not generated"]
FAMILY_TRACE["c02"] = ("TraceStreamParser", "Trace_StreamParser.cfg")


# ------------------------------------------------------------------ C01
def codec_cfg(kinds, attrs, errs, mext, pext, iqpl, sm, tcs, maxexts):
    return """SPECIFICATION Spec
CONSTANTS
  Kinds = %s
  AttrSets <- %s
  ErrKinds = %s
  MsgExts <- %s
  PresExts <- %s
  IQPayloads <- %s
  SMKinds = %s
  TextClasses <- %s
  MaxExts = %d
  Emit = TRUE
INVARIANTS C01_RoundTripShape C01_ShapeIndependentOfText EmitInv
CHECK_DEADLOCK FALSE
""" % (kinds, attrs, errs, mext, pext, iqpl, sm, tcs, maxexts)


@check("C01")
def c01(ctx):
    q = ctx.tier == "quick"
    def full():
        allerr = S("none", "full", "notext", "nocode")
        sm = S("enable", "enabled", "r", "a", "resumed", "resume", "failed")
        gens = [
            # every subset of the five addressing attributes x error shapes x every text class, no extensions
            codec_cfg(S("message", "presence", "iq", "sm", "auth", "handshake"), "AllAttrSets", allerr, "MsgExtsSome", "PresExtsAll", "IQPl", sm, "TCAll", 0),
            # every single extension / payload, every text class
            codec_cfg(S("message", "presence", "iq"), "FewAttrSets", S("none", "full"), "MsgExtsAll", "PresExtsAll", "IQPl", "{}", "TCAll" if not q else "TCSome", 1),
            # every ordered pair of distinct message extensions (thorough: triples over a subset)
            codec_cfg(S("message"), "FewAttrSets", S("none"), "MsgExtsAll", "NoneSet", "NoneSet", "{}", "TCSome" if not q else "TCMixed", 2),
        ]
        # every ordered pair of distinct presence extensions, with and without an <error/> child
        gens.append(codec_cfg(S("presence"), "FewAttrSets", S("none", "full"), "NoneSet", "PresExtsAll", "NoneSet", "{}", "TCMixed" if q else "TCSome", 2))
        if not q:
            gens.append(codec_cfg(S("message"), "FewAttrSets", S("none"), "MsgExtsSome", "NoneSet", "NoneSet", "{}", "TCMixed", 3))
        scen, seen = [], set()
        for g in gens:
            for b in blines(vlib.tlc_mc(ctx, "MC_Codec", "MC_Codec.cfg", cfgtext=g, timeout=900)):
                k = json.dumps(b, sort_keys=True)
                if k not in seen:
                    seen.add(k)
                    scen.append(b)
        ctx.exhaustive = True
        ctx.notes["bounds"] = "message/presence/iq: every subset of {type,id,from,to,lang} x {no error, full error, error without text, error without legacy code} x 13 text classes (markup characters, CDATA terminator, whitespace forms, CR / CRLF / TAB, markup-dense text, non-ASCII); every registered message extension (16 of the 21; PubSubEvent, HTML, Delegation not populated), the MUC presence extension, 8 extensions registered by the harness through TypeRegistry.MapExtension whose local names are those of the core children (body, subject, thread, error; show, status, priority, error) in other namespaces, presence extensions in pairs, IQ payloads {version, disco#info, disco#items, bind, roster, generic node tree}; every ordered pair of distinct message extensions; the 7 stream-management elements, <auth/>, <handshake/>; %d concretisations each" % (2 if q else 6)
        out, nev, _ = vlib.run_driver(ctx, "c01", scen=scen, args=["-variants", "2" if q else "6"], timeout=2400)
        ctx.verdicts += vlib.tlc_trace(ctx, "TraceCodec", "Trace_Codec.cfg", out, nev, timeout=1800)
    replay_or(ctx, "c01", "TraceCodec", "Trace_Codec.cfg", full)
    ctx.assumptions += ["equality of the parsed value with the original is the equality of the multisets of (field path, leaf value) extracted by reflection, zero values omitted (nil vs empty, pointer vs value, XMLName filled in by the parser are thereby normalised)",
                        "byte identity of the second serialisation is judged modulo the default-namespace declaration the parser records on the root element",
                        "payload internals are populated by reflection over the struct tags; not populated: PubSubEvent, PubSubGeneric, PubSubOwner, Command, ControlSet, HTML, Delegation (interface-typed or innerxml fields)",
                        "encoding/xml itself (escaping rules, attribute quoting) is trusted as the reference for well-formedness: the harness re-tokenises the output with it"]
FAMILY_TRACE["c01"] = ("TraceCodec", "Trace_Codec.cfg")
