"""Per-property pipelines. Each function drives: TLC model check (+ behaviour emission) ->
replay into the real code -> TLC trace validation. Verdicts only come from the last step."""
import json, os
import vlib
from vlib import Infra

CHECKS = {}


def check(pid):
    def deco(f):
        CHECKS[pid] = f
        return f
    return deco


def blines(r):
    return r["tagged"].get("B", [])


def replay_or(ctx, family, trace_module, trace_cfg, full, driver_args=(), **tkw):
    """Common tail: if --replay was given run only that scenario, otherwise run `full`."""
    if ctx.replay:
        scen = ctx.replay.get("scenario")
        if scen is None:
            raise Infra("replay file carries no scenario")
        args = ctx.replay.get("driver_args") or list(driver_args)
        ctx.seed = ctx.replay.get("seed", ctx.seed)
        out, nev, _ = vlib.run_driver(ctx, ctx.replay.get("family") or family, scen=[scen], n=0, args=args)
        ctx.verdicts += vlib.tlc_trace(ctx, trace_module, trace_cfg, out, nev, **tkw)
        ctx.states = max(ctx.states, 1)
        ctx.transitions = max(ctx.transitions, 1)
        return True
    full()
    return False


# ------------------------------------------------------------------ C17
@check("C17")
def c17(ctx):
    def full():
        quick = ctx.tier == "quick"
        r = vlib.tlc_mc(ctx, "UnAckQueue", "MC_UnAckQueue.cfg", consts={"MaxOps": 4 if quick else 5, "MaxLen": 3 if quick else 4})
        scen = blines(r)
        # looser Push (any greater id): invariants only
        vlib.tlc_mc(ctx, "UnAckQueue", "MC_UnAckQueue.cfg", consts={"MaxOps": 5 if quick else 6, "IdSlack": 3, "Emit": "FALSE",
                                                                     "KSet": '{"neg", "zero", "one", "len", "len1"}'})
        if not quick:
            rs = vlib.tlc_simulate(ctx, "UnAckQueue", "MC_UnAckQueue.cfg", num=3000, depth=41, seed=ctx.seed,
                                   consts={"MaxOps": 40, "MaxLen": 8})
            scen += blines(rs)
        if not scen:
            raise Infra("TLC emitted no behaviours")
        ctx.exhaustive = True
        ctx.notes["bounds"] = "all operation histories of length %d over {push,pop,peek,empty,popn(k),peekn(k)}, k in {-1,0,1,2,len,len+1,10^6}, queue length <= %d" % (
            4 if quick else 5, 3 if quick else 4)
        out, nev, _ = vlib.run_driver(ctx, "c17", scen=scen, n=2000 if quick else 40000, args=["-len", "60" if quick else "300"])
        ctx.verdicts += vlib.tlc_trace(ctx, "TraceUnAckQueue", "Trace_UnAckQueue.cfg", out, nev)
    replay_or(ctx, "c17", "TraceUnAckQueue", "Trace_UnAckQueue.cfg", full)
    ctx.assumptions += ["payload tags and ids are projected by the harness (stanza string -> integer tag)",
                        "k is clamped to +-10^6 when logged (TLC integers are 32 bit); queues stay far shorter"]


# ------------------------------------------------------------------ C19
@check("C19")
def c19(ctx):
    def full():
        quick = ctx.tier == "quick"
        r = vlib.tlc_mc(ctx, "MC_Backoff", "MC_Backoff.cfg",
                        consts=None if quick else {"MaxOps": 4})
        scen = blines(r)
        if not quick:
            r2 = vlib.tlc_mc(ctx, "MC_Backoff", "MC_Backoff_grid.cfg")
            scen += blines(r2)
        if not scen:
            raise Infra("TLC emitted no behaviours")
        ctx.exhaustive = True
        ctx.notes["bounds"] = "all histories of %d operations over {wait, reset, query(n)} for n in NsDef and the parameter grid of MC_Backoff.tla" % (3 if quick else 4)
        out, nev, _ = vlib.run_driver(ctx, "c19", scen=scen, n=3000 if quick else 60000)
        ctx.verdicts += vlib.tlc_trace(ctx, "TraceBackoff", "Trace_Backoff.cfg", out, nev)
    replay_or(ctx, "c19", "TraceBackoff", "Trace_Backoff.cfg", full)
    ctx.assumptions += ["durations are logged in whole milliseconds (a non-integral duration is itself reported)",
                        "attempt numbers above 2*10^9 are logged as 2*10^9: the reference delay saturates after <= 64 multiplications",
                        "caps restricted to values a time.Duration and a 32-bit TLC integer can hold"]


# ------------------------------------------------------------------ C15
@check("C15")
def c15(ctx):
    def full():
        quick = ctx.tier == "quick"
        r = vlib.tlc_mc(ctx, "Jid", "MC_Jid.cfg", consts={"MaxLen": 6 if quick else 8})
        scen = blines(r)
        if not scen:
            raise Infra("TLC emitted no behaviours")
        ctx.exhaustive = True
        ctx.notes["bounds"] = "all strings of length <= %d over the classes {ordinary, @, /, whitespace, forbidden-in-local}, each concretised %d times" % (
            6 if quick else 8, 4 if quick else 6)
        out, nev, _ = vlib.run_driver(ctx, "c15", scen=scen, n=5000 if quick else 100000, args=["-variants", "4" if quick else "6"])
        ctx.verdicts += vlib.tlc_trace(ctx, "TraceJid", "Trace_Jid.cfg", out, nev)
    replay_or(ctx, "c15", "TraceJid", "Trace_Jid.cfg", full)
    ctx.assumptions += ["the rune -> class table of the harness (cmd/driver/c15.go) is trusted",
                        "not asserted: strings with '/' before the first '@' (excluded by the property); ' \" : < > inside a domain"]


# ------------------------------------------------------------------ C20
@check("C20")
def c20(ctx):
    def full():
        quick = ctx.tier == "quick"
        r = vlib.tlc_mc(ctx, "Address", "MC_Address.cfg")
        scen = blines(r)
        if not scen:
            raise Infra("TLC emitted no behaviours")
        ctx.exhaustive = True
        ctx.notes["bounds"] = "every well-formed address form of Address.tla (scheme x host form x brackets x port x client/component), %s" % (
            "12 concretisations each" if quick else "60 concretisations each and every port 1..65535 for the forms with a port")
        args = ["-variants", "12"] if quick else ["-variants", "60", "-allports"]
        out, nev, _ = vlib.run_driver(ctx, "c20", scen=scen, args=args)
        ctx.verdicts += vlib.tlc_trace(ctx, "TraceAddress", "Trace_Address.cfg", out, nev)
    replay_or(ctx, "c20", "TraceAddress", "Trace_Address.cfg", full)
    ctx.assumptions += ["net.SplitHostPort and string equality of the host, computed in the harness, are trusted as the observation of 'valid host:port' and 'keeps the host'",
                        "not asserted: bare IPv6 directly followed by :port (ambiguous), schemes other than ws:/wss:, port 0"]


# ------------------------------------------------------------------ C06
@check("C06")
def c06(ctx):
    def full():
        quick = ctx.tier == "quick"
        r = vlib.tlc_mc(ctx, "MC_Router", "MC_Router.cfg" if quick else "MC_Router_full.cfg", timeout=1500)
        scen = blines(r)
        if not scen:
            raise Infra("TLC emitted no behaviours")
        ctx.exhaustive = True
        ctx.notes["bounds"] = ("all route tables of <= 2 routes over the matcher alphabet of MC_Router.tla (%s) x all packets" %
                               ("quick alphabet" if quick else "full alphabet"))
        out, nev, _ = vlib.run_driver(ctx, "c06", scen=scen, n=20000 if quick else 300000, timeout=1800)
        ctx.verdicts += vlib.tlc_trace(ctx, "TraceRouter", "Trace_Router.cfg", out, nev, timeout=1800)
    replay_or(ctx, "c06", "TraceRouter", "Trace_Router.cfg", full)
    ctx.assumptions += ["replies are observed by re-scanning the serialised reply with a plain XML token scan",
                        "not asserted: namespace matchers against an unregistered IQ payload; upper-case namespaces"]
