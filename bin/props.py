"""Per-property pipelines. Each function drives: TLC model check (+ behaviour emission) ->
replay into the real code -> TLC trace validation. Verdicts only come from the last step."""
import json, os
import vlib
from vlib import Infra

CHECKS = {}


def check(pid):
    def deco(f):
        CHECKS[pid] = f
        return f
    return deco


def blines(r):
    return r["tagged"].get("B", [])


def replay_or(ctx, family, trace_module, trace_cfg, full, driver_args=(), **tkw):
    """Common tail: if --replay was given run only that scenario, otherwise run `full`."""
    if ctx.replay:
        scen = ctx.replay.get("scenario")
        if scen is None:
            raise Infra("replay file carries no scenario")
        args = ctx.replay.get("driver_args") or list(driver_args)
        ctx.seed = ctx.replay.get("seed", ctx.seed)
        out, nev, _ = vlib.run_driver(ctx, ctx.replay.get("family") or family, scen=[scen], n=0, args=args)
        ctx.verdicts += vlib.tlc_trace(ctx, trace_module, trace_cfg, out, nev, **tkw)
        ctx.states = max(ctx.states, 1)
        ctx.transitions = max(ctx.transitions, 1)
        return True
    full()
    return False


# ------------------------------------------------------------------ C17
@check("C17")
def c17(ctx):
    def full():
        quick = ctx.tier == "quick"
        r = vlib.tlc_mc(ctx, "UnAckQueue", "MC_UnAckQueue.cfg", consts={"MaxOps": 4 if quick else 5, "MaxLen": 3 if quick else 4})
        scen = blines(r)
        # looser Push (any greater id): invariants only
        vlib.tlc_mc(ctx, "UnAckQueue", "MC_UnAckQueue.cfg", consts={"MaxOps": 5 if quick else 6, "IdSlack": 3, "Emit": "FALSE",
                                                                     "KSet": '{"neg", "zero", "one", "len", "len1"}'})
        if not quick:
            rs = vlib.tlc_simulate(ctx, "UnAckQueue", "MC_UnAckQueue.cfg", num=3000, depth=41, seed=ctx.seed,
                                   consts={"MaxOps": 40, "MaxLen": 8})
            scen += blines(rs)
        if not scen:
            raise Infra("TLC emitted no behaviours")
        ctx.exhaustive = True
        ctx.notes["bounds"] = "all operation histories of length %d over {push,pop,peek,empty,popn(k),peekn(k)}, k in {-1,0,1,2,len,len+1,10^6}, queue length <= %d" % (
            4 if quick else 5, 3 if quick else 4)
        out, nev, _ = vlib.run_driver(ctx, "c17", scen=scen, n=2000 if quick else 40000, args=["-len", "60" if quick else "300"])
        ctx.verdicts += vlib.tlc_trace(ctx, "TraceUnAckQueue", "Trace_UnAckQueue.cfg", out, nev)
    replay_or(ctx, "c17", "TraceUnAckQueue", "Trace_UnAckQueue.cfg", full)
    ctx.assumptions += ["payload tags and ids are projected by the harness (stanza string -> integer tag)",
                        "k is clamped to +-10^6 when logged (TLC integers are 32 bit); queues stay far shorter"]
