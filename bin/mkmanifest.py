#!/usr/bin/env python3
"""Regenerate MANIFEST.json from the table below (kept next to the checks so it stays current)."""
import json, os, sys
sys.path.insert(0, os.path.dirname(os.path.abspath(__file__)))
import claims
V = os.path.dirname(os.path.dirname(os.path.abspath(__file__)))
ids = [json.loads(l)['id'] for l in open(os.path.join(V, 'properties.jsonl'))]
checks, na = [], []
for i in ids:
    c = claims.CLAIMS.get(i)
    if c is None:
        na.append({"property_id": i, "reason": claims.NOT_APPLICABLE.get(i, "check not built yet (build in progress; order of work in DESIGN.md section 10)")})
        continue
    checks.append({
        "property_id": i,
        "quick_cmd": "bin/check %s --tier quick" % i,
        "thorough_cmd": "bin/check %s --tier thorough" % i,
        "evidence_file": "/verif/evidence/%s.json" % i,
        "replay_cmd_template": "bin/check %s --replay {path}" % i,
        "engine": "tla-trace",
        "level_claimed": {"category": "model_checking", "text": c["text"], "design_ref": c.get("ref", "DESIGN.md section 7 " + i)},
        "level_note": c["note"],
        "technique": c["technique"],
    })
m = {
    "version": 1,
    "setup_cmd": "cd /verif/harness && GOFLAGS=-mod=mod GOPROXY=off GOSUMDB=off GOTOOLCHAIN=local go build -tags verif -o /dev/null ./cmd/driver && command -v tlc >/dev/null",
    "hooks": {
        "guard": "verif",
        "enable": "go build -tags verif (the harness in /verif/harness is built with it; hook files are //go:build verif, their no-op twins //go:build !verif)",
        "baseline_off_cmd": "cd /repo && GOFLAGS=-mod=mod GOPROXY=off GOSUMDB=off go test -vet=off -count=1 -timeout 25m ./...",
        "source_commits": claims.HOOK_COMMITS,
        "add_only": True,
    },
    "engines": [{"name": "tla-trace", "path": "/verif/bin/check", "serves_properties": [c["property_id"] for c in checks],
                 "kind_free_text": "TLA+ specifications in /verif/spec model-checked with TLC; TLC-generated behaviours replayed into the real code by the Go harness in /verif/harness; recorded traces validated by TLC against the trace specifications"}],
    "checks": checks,
    "not_applicable": na,
    "notes": claims.NOTES,
}
json.dump(m, open(os.path.join(V, 'MANIFEST.json'), 'w'), indent=1)
print("claimed:", [c["property_id"] for c in checks])
